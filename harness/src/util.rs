//! Panic capture, sharded execution, common conversions.
use crate::report::Report;
use crate::rng::mix;
use std::cell::RefCell;
use std::panic::{self, AssertUnwindSafe};
use std::sync::atomic::{AtomicUsize, Ordering};
use std::sync::{Arc, Mutex};

#[derive(Clone, Debug, PartialEq, Eq)]
pub struct Panic {
    pub file: String,
    pub line: u32,
    pub msg: String,
}

impl Panic {
    /// File name without directories, message with numbers squashed:
    /// stable identification of a panic *site*.
    pub fn site(&self) -> String {
        // last two path components: "machine/mod.rs" rather than "mod.rs"
        let parts: Vec<&str> = self.file.rsplit('/').take(2).collect();
        let file = if parts.len() == 2 && parts[0] == "mod.rs" { format!("{}/{}", parts[1], parts[0]) } else { parts.get(0).unwrap_or(&"?").to_string() };
        let mut msg = String::new();
        let mut last_digit = false;
        for c in self.msg.chars().take(80) {
            if c.is_ascii_digit() {
                if !last_digit {
                    msg.push('#');
                }
                last_digit = true;
            } else {
                last_digit = false;
                msg.push(if c == '\n' { ' ' } else { c });
            }
        }
        format!("{}:{}", file, msg)
    }
    pub fn is_fuel(&self) -> bool {
        self.msg.contains("clock edge fuel exhausted")
    }
}

thread_local! {
    static LAST_PANIC: RefCell<Option<Panic>> = RefCell::new(None);
}

/// Install a silent panic hook that records location and message per thread.
pub fn install_panic_hook() {
    panic::set_hook(Box::new(|info| {
        let (file, line) = info
            .location()
            .map(|l| (l.file().to_string(), l.line()))
            .unwrap_or_else(|| ("?".into(), 0));
        let msg = if let Some(s) = info.payload().downcast_ref::<&str>() {
            s.to_string()
        } else if let Some(s) = info.payload().downcast_ref::<String>() {
            s.clone()
        } else {
            "<non-string panic payload>".to_string()
        };
        LAST_PANIC.with(|p| *p.borrow_mut() = Some(Panic { file, line, msg }));
    }));
}

/// Run `f`, turning a panic into `Err(Panic)`. Fuel is disarmed afterwards.
pub fn catch<T>(f: impl FnOnce() -> T) -> Result<T, Panic> {
    let r = panic::catch_unwind(AssertUnwindSafe(f));
    match r {
        Ok(v) => Ok(v),
        Err(_) => {
            emulator_2a_lib::machine::verif::set_fuel(None);
            let p = LAST_PANIC.with(|p| p.borrow_mut().take()).unwrap_or(Panic {
                file: "?".into(),
                line: 0,
                msg: "?".into(),
            });
            Err(p)
        }
    }
}

/// Run `n_items` work items on `threads` threads; item `i` gets seed
/// `mix(seed, i)`. A panic escaping an item makes the run inconclusive.
pub fn par_items<F>(threads: usize, n_items: usize, seed: u64, f: F) -> Report
where
    F: Fn(usize, u64, &mut Report) + Sync,
{
    let next = AtomicUsize::new(0);
    let total = Arc::new(Mutex::new(Report::new()));
    std::thread::scope(|s| {
        for _ in 0..threads.max(1) {
            let total = total.clone();
            let next = &next;
            let f = &f;
            s.spawn(move || {
                let mut local = Report::new();
                loop {
                    let i = next.fetch_add(1, Ordering::Relaxed);
                    if i >= n_items {
                        break;
                    }
                    let r = catch(|| {
                        let mut rep = Report::new();
                        f(i, mix(seed, i as u64), &mut rep);
                        rep
                    });
                    match r {
                        Ok(rep) => local.merge(rep),
                        Err(p) => local.inconclusive(format!(
                            "work item {} panicked outside an oracle: {}:{} {}",
                            i, p.file, p.line, p.msg
                        )),
                    }
                }
                total.lock().unwrap().merge(local);
            });
        }
    });
    Arc::try_unwrap(total).unwrap().into_inner().unwrap()
}

pub fn hex(bytes: &[u8]) -> String {
    bytes.iter().map(|b| format!("{:02X}", b)).collect::<Vec<_>>().join(" ")
}

/// A logger that accepts every record and drops it: with it installed the arguments of
/// every `warn!`/`trace!` in the code under test are evaluated, as they are with `-v`.
struct DropLogger;
impl log::Log for DropLogger {
    fn enabled(&self, _: &log::Metadata) -> bool {
        true
    }
    fn log(&self, record: &log::Record) {
        // format the message (that is what a real logger does), discard the result
        let s = format!("{}", record.args());
        std::hint::black_box(s.len());
    }
    fn flush(&self) {}
}
static DROP_LOGGER: DropLogger = DropLogger;

/// Install the dropping logger (once) and set the level: 0 off, 2 warn, 5 trace.
pub fn set_log_level(level: u8) {
    let _ = log::set_logger(&DROP_LOGGER);
    log::set_max_level(match level {
        0 => log::LevelFilter::Off,
        1 => log::LevelFilter::Error,
        2 => log::LevelFilter::Warn,
        3 => log::LevelFilter::Info,
        4 => log::LevelFilter::Debug,
        _ => log::LevelFilter::Trace,
    });
}
