pub mod asmtext;
pub mod prog;
