pub mod prog;
