//! Generator of mrasm programs: produces an AST (the repository's plain AST
//! data types are used as containers) *and* a concrete spelling of it, so the
//! expected parse result is known by construction. Spelling variation: case of
//! mnemonics / registers / label references, spacing, radix and leading zeros
//! of numbers, comments with arbitrary content, label placement.
use crate::rng::Rng;
use emulator_2a_lib::parser::{
    Asm, Constant, Destination, Instruction, Line, MemAddress, Programsize, Register, RegisterDdi, RegisterDi, Source, Stacksize,
};

#[derive(Clone, Copy)]
pub struct Opts {
    pub max_lines: usize,
    /// image must fit into 240 bytes, .ORG only forward (C02's well-behaved class)
    pub well_behaved_layout: bool,
    /// DEC with non-register operands allowed
    pub dec_any_operand: bool,
    /// references may differ in letter case from the definition
    pub label_case_variation: bool,
    pub max_labels: usize,
    pub unicode_comments: bool,
    /// only instructions that make sense to execute (no data directives in the flow) - unused by the parser checks
    pub big_data: bool,
}

impl Opts {
    pub fn parser() -> Self {
        Opts { max_lines: 40, well_behaved_layout: false, dec_any_operand: true, label_case_variation: true, max_labels: 40, unicode_comments: true, big_data: true }
    }
    pub fn layout() -> Self {
        Opts { max_lines: 30, well_behaved_layout: true, dec_any_operand: true, label_case_variation: true, max_labels: 12, unicode_comments: false, big_data: false }
    }
}

pub struct Generated {
    pub asm: Asm,
    pub text: String,
    /// the text ends with a newline (the parser may report one more empty line)
    pub trailing_newline: bool,
}

const REGS: [Register; 4] = [Register::R0, Register::R1, Register::R2, Register::R3];

pub fn reg(rng: &mut Rng) -> Register {
    REGS[rng.usize(4)]
}

fn ws1(rng: &mut Rng) -> String {
    match rng.below(6) {
        0 => "\t".into(),
        1 => "  ".into(),
        2 => " \t ".into(),
        _ => " ".into(),
    }
}

fn ws0(rng: &mut Rng) -> String {
    match rng.below(5) {
        0 => "".into(),
        1 => "\t".into(),
        2 => "   ".into(),
        _ => " ".into(),
    }
}

pub fn random_case(rng: &mut Rng, s: &str) -> String {
    match rng.below(4) {
        0 => s.to_lowercase(),
        1 => s.chars().map(|c| if rng.bool() { c.to_ascii_lowercase() } else { c.to_ascii_uppercase() }).collect(),
        _ => s.to_string(),
    }
}

pub fn spell_reg(rng: &mut Rng, r: Register) -> String {
    let n = match r {
        Register::R0 => 0,
        Register::R1 => 1,
        Register::R2 => 2,
        Register::R3 => 3,
    };
    if n == 3 && rng.chance(1, 3) {
        return "PC".into();
    }
    format!("{}{}", if rng.chance(1, 4) { 'r' } else { 'R' }, n)
}

fn zeros(rng: &mut Rng) -> String {
    match rng.below(8) {
        0 => "0".into(),
        1 => "00".into(),
        2 => "0000000".into(),
        _ => "".into(),
    }
}

pub fn spell_u8(rng: &mut Rng, v: u8) -> String {
    match rng.below(3) {
        0 => format!("{}{}", zeros(rng), v),
        1 => {
            let h = if rng.bool() { format!("{:X}", v) } else { format!("{:x}", v) };
            format!("0x{}{}", zeros(rng), h)
        }
        _ => format!("0b{}{:b}", zeros(rng), v),
    }
}

pub fn spell_dec(rng: &mut Rng, v: u8) -> String {
    format!("{}{}", zeros(rng), v)
}

pub fn spell_u16(rng: &mut Rng, v: u16) -> String {
    match rng.below(3) {
        0 => format!("{}{}", zeros(rng), v),
        1 => {
            let h = if rng.bool() { format!("{:X}", v) } else { format!("{:x}", v) };
            format!("0x{}{}", zeros(rng), h)
        }
        _ => format!("0b{}{:b}", zeros(rng), v),
    }
}

/// A label name that the documented language certainly allows: does not
/// start with R, PC or SP (any case).
pub fn label_name(rng: &mut Rng, k: usize) -> String {
    const FIRST: &[u8] = b"ABCDEFGHIJKLMNOQTUVWXYZ_abcdefghijklmnoqtuvwxyz";
    const REST: &[u8] = b"ABCDEFGHIJKLMNOPQRSTUVWXYZabcdefghijklmnopqrstuvwxyz0123456789_";
    let mut s = String::new();
    s.push(FIRST[rng.usize(FIRST.len())] as char);
    let len = match rng.below(10) {
        0 => 0,
        1 => 30 + rng.usize(30),
        _ => 1 + rng.usize(8),
    };
    for _ in 0..len {
        s.push(REST[rng.usize(REST.len())] as char);
    }
    // unique, also case-insensitively
    s.push_str(&format!("_{}", k));
    // a leading S or P must not be followed by P / C
    let lower = s.to_lowercase();
    if lower.starts_with("sp") || lower.starts_with("pc") {
        s.insert(1, '_');
    }
    s
}

fn comment_text(rng: &mut Rng, unicode: bool) -> String {
    const ASCII: &[u8] = b"abcdefghijklmnopqrstuvwxyzABCDEFGHIJKLMNOPQRSTUVWXYZ0123456789 !\"#$%&'()*+,-./:<=>?@[\\]^_`{|}~;\t";
    const UNI: &[char] = &['ä', 'ß', 'é', '€', '→', '日', '本', '🎉', '\u{0301}', '\u{200B}', '\u{00A0}', 'Ω', '\u{2028}', '\u{0B}', '\u{0C}', '\u{FEFF}'];
    let len = match rng.below(8) {
        0 => 0,
        1 => 60 + rng.usize(60),
        _ => 1 + rng.usize(20),
    };
    let mut s = String::new();
    for _ in 0..len {
        if unicode && rng.chance(1, 6) {
            s.push(UNI[rng.usize(UNI.len())]);
        } else {
            s.push(ASCII[rng.usize(ASCII.len())] as char);
        }
    }
    // the documented comment is the trimmed text; keep ';' away from both ends
    let t = s.trim_matches(|c| c == ' ' || c == '\t' || c == ';').to_string();
    t
}

/// ";" + decoration + text. Returns (spelling, expected comment).
pub fn spell_comment(rng: &mut Rng, unicode: bool) -> (String, String) {
    let t = comment_text(rng, unicode);
    let sp = format!(";{}{}{}", ws0(rng), t, ws0(rng));
    (sp, t)
}

pub struct Ctx<'a> {
    pub labels: &'a [String],
    pub opts: &'a Opts,
}

fn spell_label_ref(rng: &mut Rng, cx: &Ctx, name: &str) -> String {
    if cx.opts.label_case_variation && rng.chance(1, 3) {
        if rng.bool() {
            name.to_uppercase()
        } else {
            name.to_lowercase()
        }
    } else {
        name.to_string()
    }
}

/// Constant: number or label reference. Returns (ast, spelling).
fn constant(rng: &mut Rng, cx: &Ctx) -> (Constant, String) {
    if !cx.labels.is_empty() && rng.chance(1, 3) {
        let name = &cx.labels[rng.usize(cx.labels.len())];
        let sp = spell_label_ref(rng, cx, name);
        (Constant::Label(sp.clone()), sp)
    } else {
        let v = rng.byte_biased();
        (Constant::Constant(v), spell_u8(rng, v))
    }
}

fn mem(rng: &mut Rng, cx: &Ctx) -> (MemAddress, String) {
    if rng.bool() {
        let r = reg(rng);
        (MemAddress::Register(r), format!("({})", spell_reg(rng, r)))
    } else {
        let (c, s) = constant(rng, cx);
        (MemAddress::Constant(c), format!("({})", s))
    }
}

pub fn source(rng: &mut Rng, cx: &Ctx) -> (Source, String) {
    match rng.below(5) {
        0 => {
            let r = reg(rng);
            (Source::Register(r), spell_reg(rng, r))
        }
        1 => {
            let r = reg(rng);
            (Source::RegisterDi(RegisterDi(r)), format!("({}+)", spell_reg(rng, r)))
        }
        2 => {
            let r = reg(rng);
            (Source::RegisterDdi(RegisterDdi(r)), format!("(({}+))", spell_reg(rng, r)))
        }
        3 => {
            let (m, s) = mem(rng, cx);
            (Source::MemAddress(m), s)
        }
        _ => {
            let (c, s) = constant(rng, cx);
            (Source::Constant(c), s)
        }
    }
}

pub fn destination(rng: &mut Rng, cx: &Ctx) -> (Destination, String) {
    match rng.below(4) {
        0 => {
            let r = reg(rng);
            (Destination::Register(r), spell_reg(rng, r))
        }
        1 => {
            let r = reg(rng);
            (Destination::RegisterDi(RegisterDi(r)), format!("({}+)", spell_reg(rng, r)))
        }
        2 => {
            let r = reg(rng);
            (Destination::RegisterDdi(RegisterDdi(r)), format!("(({}+))", spell_reg(rng, r)))
        }
        _ => {
            let (m, s) = mem(rng, cx);
            (Destination::MemAddress(m), s)
        }
    }
}

fn sep(rng: &mut Rng) -> String {
    format!(",{}", ws0(rng))
}

pub const N_KINDS: usize = 59;

/// Instruction of kind `k` (0..N_KINDS). Needs at least one label for the
/// jump kinds; returns None if none is available.
pub fn instruction(rng: &mut Rng, cx: &Ctx, k: usize) -> Option<(Instruction, String)> {
    use Instruction::*;
    let m = |rng: &mut Rng, s: &str| random_case(rng, s);
    let w = |rng: &mut Rng| ws1(rng);
    let r1 = |rng: &mut Rng, name: &str, f: fn(Register) -> Instruction| {
        let r = reg(rng);
        let sp = format!("{}{}{}", random_case(rng, name), ws1(rng), spell_reg(rng, r));
        (f(r), sp)
    };
    let r2 = |rng: &mut Rng, name: &str, f: fn(Register, Register) -> Instruction| {
        let (a, b) = (reg(rng), reg(rng));
        let sp = format!("{}{}{}{}{}", random_case(rng, name), ws1(rng), spell_reg(rng, a), sep(rng), spell_reg(rng, b));
        (f(a, b), sp)
    };
    let ds = |rng: &mut Rng, name: &str, f: fn(Destination, Source) -> Instruction| {
        let (d, dsp) = destination(rng, cx);
        let (s, ssp) = source(rng, cx);
        let sp = format!("{}{}{}{}{}", random_case(rng, name), ws1(rng), dsp, sep(rng), ssp);
        (f(d, s), sp)
    };
    let jump = |rng: &mut Rng, name: &str, f: fn(String) -> Instruction| -> Option<(Instruction, String)> {
        if cx.labels.is_empty() {
            return None;
        }
        let l = &cx.labels[rng.usize(cx.labels.len())];
        let lsp = spell_label_ref(rng, cx, l);
        let sp = format!("{}{}{}", random_case(rng, name), ws1(rng), lsp);
        Some((f(lsp), sp))
    };
    Some(match k {
        0 => {
            let v = rng.byte_biased();
            (AsmOrigin(v), format!("{}{}{}", m(rng, ".ORG"), w(rng), spell_u8(rng, v)))
        }
        1 => {
            let v = if cx.opts.big_data { rng.byte_biased() } else { rng.below(12) as u8 };
            (AsmByte(v), format!("{}{}{}", m(rng, ".BYTE"), w(rng), spell_u8(rng, v)))
        }
        2 => {
            let n = if cx.opts.big_data && rng.chance(1, 10) { 20 + rng.usize(60) } else { 1 + rng.usize(5) };
            let vs: Vec<u8> = (0..n).map(|_| rng.byte_biased()).collect();
            let sp: Vec<String> = vs.iter().map(|v| spell_u8(rng, *v)).collect();
            let mut s = format!("{}{}", m(rng, ".DB"), w(rng));
            for (i, x) in sp.iter().enumerate() {
                if i > 0 {
                    s.push_str(&sep(rng));
                }
                s.push_str(x);
            }
            (AsmDefineBytes(vs), s)
        }
        3 => {
            let n = 1 + rng.usize(4);
            let vs: Vec<u16> = (0..n)
                .map(|_| match rng.below(6) {
                    0 => 65535,
                    1 => 0,
                    2 => 256,
                    3 => 255,
                    _ => rng.next() as u16,
                })
                .collect();
            let sp: Vec<String> = vs.iter().map(|v| spell_u16(rng, *v)).collect();
            let mut s = format!("{}{}", m(rng, ".DW"), w(rng));
            for (i, x) in sp.iter().enumerate() {
                if i > 0 {
                    s.push_str(&sep(rng));
                }
                s.push_str(x);
            }
            (AsmDefineWords(vs), s)
        }
        // 4 = .EQU is generated as a label definition by the program generator
        4 => {
            let ss = [Stacksize::_0, Stacksize::_16, Stacksize::_32, Stacksize::_48, Stacksize::_64, Stacksize::NotSet][rng.usize(6)];
            let t = match ss {
                Stacksize::_0 => "0".to_string(),
                Stacksize::_16 => "16".into(),
                Stacksize::_32 => "32".into(),
                Stacksize::_48 => "48".into(),
                Stacksize::_64 => "64".into(),
                Stacksize::NotSet => random_case(rng, "NOSET"),
            };
            (AsmStacksize(ss), format!("{}{}{}", m(rng, "*STACKSIZE"), w(rng), t))
        }
        5 => {
            let (ps, t) = match rng.below(4) {
                0 => (Programsize::Auto, random_case(rng, "AUTO")),
                1 => (Programsize::NotSet, random_case(rng, "NOSET")),
                _ => {
                    let v = rng.byte_biased();
                    (Programsize::Size(v), spell_dec(rng, v))
                }
            };
            (AsmProgramsize(ps), format!("{}{}{}", m(rng, "*PROGRAMSIZE"), w(rng), t))
        }
        6 => r1(rng, "CLR", Clr),
        7 => r2(rng, "ADD", Add),
        8 => r2(rng, "ADC", Adc),
        9 => r2(rng, "SUB", Sub),
        10 => r2(rng, "MUL", Mul),
        11 => r2(rng, "DIV", Div),
        12 => r1(rng, "INC", Inc),
        13 => {
            if cx.opts.dec_any_operand && rng.chance(2, 3) {
                let (s, ssp) = source(rng, cx);
                (Dec(s), format!("{}{}{}", m(rng, "DEC"), w(rng), ssp))
            } else {
                let r = reg(rng);
                (Dec(Source::Register(r)), format!("{}{}{}", m(rng, "DEC"), w(rng), spell_reg(rng, r)))
            }
        }
        14 => r1(rng, "NEG", Neg),
        15 => r2(rng, "AND", And),
        16 => r2(rng, "OR", Or),
        17 => r2(rng, "XOR", Xor),
        18 => r1(rng, "COM", Com),
        19 => ds(rng, "BITS", Bits),
        20 => ds(rng, "BITC", Bitc),
        21 => r1(rng, "TST", Tst),
        22 => ds(rng, "CMP", Cmp),
        23 => ds(rng, "BITT", Bitt),
        24 => r1(rng, "LSR", Lsr),
        25 => r1(rng, "ASR", Asr),
        26 => r1(rng, "LSL", Lsl),
        27 => r1(rng, "RRC", Rrc),
        28 => r1(rng, "RLC", Rlc),
        29 => ds(rng, "MOV", Mov),
        30 => {
            let r = reg(rng);
            let (c, csp) = constant(rng, cx);
            (LdConstant(r, c), format!("{}{}{}{}{}", m(rng, "LD"), w(rng), spell_reg(rng, r), sep(rng), csp))
        }
        31 => {
            let r = reg(rng);
            let (mm, msp) = mem(rng, cx);
            (LdMemAddress(r, mm), format!("{}{}{}{}{}", m(rng, "LD"), w(rng), spell_reg(rng, r), sep(rng), msp))
        }
        32 => {
            let r = reg(rng);
            let (mm, msp) = mem(rng, cx);
            (St(mm, r), format!("{}{}{}{}{}", m(rng, "ST"), w(rng), msp, sep(rng), spell_reg(rng, r)))
        }
        33 => r1(rng, "PUSH", Push),
        34 => r1(rng, "POP", Pop),
        35 => (PushF, m(rng, "PUSHF")),
        36 => (PopF, m(rng, "POPF")),
        37 => {
            let (s, ssp) = source(rng, cx);
            (Ldsp(s), format!("{}{}{}", m(rng, "LDSP"), w(rng), ssp))
        }
        38 => {
            let (s, ssp) = source(rng, cx);
            (Ldfr(s), format!("{}{}{}", m(rng, "LDFR"), w(rng), ssp))
        }
        39 => return jump(rng, "JMP", Jmp),
        40 => return jump(rng, "JCS", Jcs),
        41 => return jump(rng, "JCC", Jcc),
        42 => return jump(rng, "JZS", Jzs),
        43 => return jump(rng, "JZC", Jzc),
        44 => return jump(rng, "JNS", Jns),
        45 => return jump(rng, "JNC", Jnc),
        46 => return jump(rng, "JR", Jr),
        47 => return jump(rng, "CALL", Call),
        48 => (Ret, m(rng, "RET")),
        49 => (RetI, m(rng, "RETI")),
        50 => (Stop, m(rng, "STOP")),
        51 => (Nop, m(rng, "NOP")),
        52 => (Ei, m(rng, "EI")),
        53 => (Di, m(rng, "DI")),
        // a few more register-form two-operand instructions for weight
        54 => ds(rng, "MOV", Mov),
        55 => ds(rng, "CMP", Cmp),
        56 => r2(rng, "ADD", Add),
        57 => r1(rng, "DEC", |r| Dec(Source::Register(r))),
        _ => (Nop, m(rng, "NOP")),
    })
}

/// Byte size of an instruction in the image (reference layout rule).
pub fn size_of(i: &Instruction, cur: usize) -> usize {
    use Instruction::*;
    fn src_extra(s: &Source) -> usize {
        match s {
            Source::Constant(_) | Source::MemAddress(MemAddress::Constant(_)) => 1,
            _ => 0,
        }
    }
    fn dst_extra(d: &Destination) -> usize {
        match d {
            Destination::MemAddress(MemAddress::Constant(_)) => 1,
            _ => 0,
        }
    }
    match i {
        AsmOrigin(a) => (*a as usize).saturating_sub(cur),
        AsmByte(n) => *n as usize,
        AsmDefineBytes(v) => v.len(),
        AsmDefineWords(v) => 2 * v.len(),
        AsmEquals(..) | AsmStacksize(_) | AsmProgramsize(_) => 0,
        Dec(s) => 1 + src_extra(s),
        Bits(d, s) | Bitc(d, s) | Cmp(d, s) | Bitt(d, s) | Mov(d, s) => 2 + src_extra(s) + dst_extra(d),
        LdConstant(..) => 3,
        LdMemAddress(_, m) => 2 + if let MemAddress::Constant(_) = m { 1 } else { 0 },
        St(m, _) => 2 + if let MemAddress::Constant(_) = m { 1 } else { 0 },
        Ldsp(s) | Ldfr(s) => 2 + src_extra(s),
        Jmp(_) => 3,
        Jcs(_) | Jcc(_) | Jzs(_) | Jzc(_) | Jns(_) | Jnc(_) | Jr(_) | Call(_) => 2,
        _ => 1,
    }
}

/// A whole program.
pub fn program(rng: &mut Rng, opts: &Opts) -> Generated {
    let n_labels = match rng.below(10) {
        0 => 0,
        1 => opts.max_labels,
        _ => rng.usize(opts.max_labels.min(8) + 1),
    };
    let labels: Vec<String> = (0..n_labels).map(|k| label_name(rng, k)).collect();
    let cx = Ctx { labels: &labels, opts };
    let n_lines = rng.usize(opts.max_lines + 1);
    // (line, spelling of the content without surrounding space/comment)
    let mut content: Vec<(Option<Instruction>, Option<String>, String)> = vec![];
    for _ in 0..n_lines {
        match rng.below(10) {
            0 => content.push((None, None, String::new())),
            _ => {
                let k = rng.usize(N_KINDS);
                if let Some((i, sp)) = instruction(rng, &cx, k) {
                    content.push((Some(i), None, sp));
                }
            }
        }
    }
    // definitions for all labels at random positions: label lines or .EQU
    for name in &labels {
        let pos = rng.usize(content.len() + 1);
        if rng.chance(1, 4) {
            let v = rng.byte_biased();
            let sp = format!("{}{}{}{}{}", random_case(rng, ".EQU"), ws1(rng), name, ws1(rng), spell_dec(rng, v));
            content.insert(pos, (Some(Instruction::AsmEquals(name.clone(), v)), None, sp));
        } else {
            content.insert(pos, (None, Some(name.clone()), format!("{}:", name)));
        }
    }
    // layout constraints for the well-behaved class
    if opts.well_behaved_layout {
        let mut cur = 0usize;
        let mut kept = vec![];
        for (inst, lab, sp) in content.into_iter() {
            if let Some(i) = &inst {
                let (i2, sp2) = match i {
                    Instruction::AsmOrigin(a) if (*a as usize) < cur || *a as usize > 0xF0 => {
                        // re-target forward
                        if cur >= 0xF0 {
                            (Instruction::Nop, "NOP".to_string())
                        } else {
                            let a2 = (cur + rng.usize((0xF0 - cur).min(12) + 1)) as u8;
                            (Instruction::AsmOrigin(a2), format!(".ORG{}{}", ws1(rng), spell_u8(rng, a2)))
                        }
                    }
                    _ => (i.clone(), sp.clone()),
                };
                let sz = size_of(&i2, cur);
                if cur + sz > 0xF0 {
                    // does not fit any more: keep definitions that produce no bytes only
                    if sz == 0 {
                        kept.push((Some(i2), lab, sp2));
                    }
                    continue;
                }
                cur += sz;
                kept.push((Some(i2), lab, sp2));
            } else {
                kept.push((inst, lab, sp));
            }
        }
        content = kept;
    }
    // spell lines
    let mut lines = vec![];
    let mut text = String::new();
    let (hc_sp, hc) = if rng.chance(1, 3) {
        let (sp, t) = spell_comment(rng, opts.unicode_comments);
        (format!("{}{}", if rng.bool() { " " } else { "" }, sp), Some(t))
    } else {
        (if rng.chance(1, 5) { " ".to_string() } else { String::new() }, None)
    };
    text.push_str("#! mrasm");
    text.push_str(&hc_sp);
    for (inst, lab, sp) in content.into_iter() {
        text.push('\n');
        let (csp, c) = if rng.chance(1, 3) {
            let (a, b) = spell_comment(rng, opts.unicode_comments);
            (a, Some(b))
        } else {
            (String::new(), None)
        };
        text.push_str(&ws0(rng));
        text.push_str(&sp);
        text.push_str(&ws0(rng));
        text.push_str(&csp);
        lines.push(match (inst, lab) {
            (Some(i), _) => Line::Instruction(i, c),
            (None, Some(l)) => Line::Label(l, c),
            (None, None) => Line::Empty(c),
        });
    }
    let trailing_newline = rng.chance(1, 3);
    if trailing_newline {
        text.push('\n');
    }
    if lines.is_empty() && !trailing_newline {
        // "#! mrasm" alone: the grammar still yields one (empty) line
        lines.push(Line::Empty(None));
    }
    Generated { asm: Asm { comment_after_shebang: hc, lines }, text, trailing_newline }
}
