//! A tiny byte-level program builder (labels + fix-ups) used by the monitors
//! that need *terminating, structured* machine programs (C04, C07, C12).
//! Encodings per the instruction table of C02 (see refmodel::asm for the
//! text-level reference encoder; this builder is independent of /repo).
use crate::rng::Rng;

#[derive(Clone, Debug)]
pub struct Builder {
    pub bytes: Vec<u8>,
    labels: Vec<Option<u8>>,
    /// (position of the byte to patch, label, relative?)
    fixups: Vec<(usize, usize, bool)>,
}

pub type Label = usize;

impl Builder {
    pub fn new() -> Self {
        Builder { bytes: vec![], labels: vec![], fixups: vec![] }
    }
    pub fn here(&self) -> u8 {
        self.bytes.len() as u8
    }
    pub fn label(&mut self) -> Label {
        self.labels.push(None);
        self.labels.len() - 1
    }
    pub fn place(&mut self, l: Label) {
        self.labels[l] = Some(self.here());
    }
    pub fn emit(&mut self, b: &[u8]) {
        self.bytes.extend_from_slice(b);
    }
    pub fn org(&mut self, addr: u8) {
        while self.bytes.len() < addr as usize {
            self.bytes.push(0);
        }
    }
    // --- instructions
    pub fn ld_imm(&mut self, r: u8, v: u8) {
        self.emit(&[0xFB, v, 0x10 | r]);
    }
    pub fn mov_rr(&mut self, d: u8, s: u8) {
        self.emit(&[0xF0 | s, 0x10 | d]);
    }
    pub fn ld_abs(&mut self, r: u8, addr: u8) {
        self.emit(&[0xFF, addr, 0x10 | r]);
    }
    pub fn st_abs(&mut self, addr: u8, r: u8) {
        self.emit(&[0xF0 | r, 0x1F, addr]);
    }
    pub fn st_abs_imm(&mut self, addr: u8, v: u8) {
        self.emit(&[0xFB, v, 0x1F, addr]);
    }
    /// two-byte op (0x10 MOV, 0x20 CMP, 0x30 BITT, 0x50 BITS, 0x60 BITC) with
    /// destination (mode, reg) and source (mode, reg); immediates/addresses
    /// follow where the register is PC (3) and the mode is 2 / 3.
    pub fn two(&mut self, op: u8, dmode: u8, dreg: u8, dextra: Option<u8>, smode: u8, sreg: u8, sextra: Option<u8>) {
        self.emit(&[0xF0 | smode << 2 | sreg]);
        if let Some(x) = sextra {
            self.emit(&[x]);
        }
        self.emit(&[op | dmode << 2 | dreg]);
        if let Some(x) = dextra {
            self.emit(&[x]);
        }
    }
    pub fn alu(&mut self, base: u8, d: u8, s: u8) {
        self.emit(&[base | s << 2 | d]);
    }
    pub fn unary(&mut self, base: u8, r: u8) {
        self.emit(&[base | r]);
    }
    pub fn push(&mut self, r: u8) {
        self.emit(&[0x10 | r]);
    }
    pub fn pop(&mut self, r: u8) {
        self.emit(&[0x14 | r]);
    }
    pub fn ldsp_imm(&mut self, v: u8) {
        self.emit(&[0xFB, v, 0x40]);
    }
    pub fn jr(&mut self, cond: u8, l: Label) {
        self.emit(&[0x20 | cond, 0]);
        let p = self.bytes.len() - 1;
        self.fixups.push((p, l, true));
    }
    pub fn call(&mut self, l: Label) {
        self.emit(&[0x28, 0]);
        let p = self.bytes.len() - 1;
        self.fixups.push((p, l, false));
    }
    pub fn jmp(&mut self, l: Label) {
        self.emit(&[0xFB, 0, 0x13]);
        let p = self.bytes.len() - 2;
        self.fixups.push((p, l, false));
    }
    pub fn finish(mut self) -> Option<Vec<u8>> {
        if self.bytes.len() > 0xF0 {
            return None;
        }
        for (pos, l, rel) in self.fixups.clone() {
            let target = self.labels[l]?;
            self.bytes[pos] = if rel { target.wrapping_sub(pos as u8 + 1) } else { target };
        }
        Some(self.bytes)
    }
}

pub const DATA_LO: u8 = 0xA0;
pub const DATA_HI: u8 = 0xCF;
pub const STACK_TOP: u8 = 0xEF;
pub const COUNTER: u8 = 0x9F;

/// Options for the random terminating body.
#[derive(Clone, Copy)]
pub struct BodyOpts {
    pub statements: usize,
    /// allow EI/DI/LDFR/POPF of arbitrary values (interrupt-enable changes)
    pub ie_changes: bool,
    /// allow writes to the output registers FE/FF
    pub outputs: bool,
}

fn data_addr(rng: &mut Rng) -> u8 {
    DATA_LO + rng.below((DATA_HI - DATA_LO + 1) as u64) as u8
}

/// Emit a random terminating statement sequence using R0-R2, the data area,
/// balanced stack traffic, bounded loops and calls to `subs`.
pub fn body(b: &mut Builder, rng: &mut Rng, o: &BodyOpts, subs: &[Label]) {
    for _ in 0..o.statements {
        if b.bytes.len() > 0x80 {
            break;
        }
        match rng.below(22) {
            0 | 1 => b.ld_imm(rng.below(3) as u8, rng.byte_biased()),
            2 | 3 => {
                let base = *rng.pick(&[0x60u8, 0x70, 0x80, 0x90, 0xA0, 0xD0]);
                b.alu(base, rng.below(3) as u8, rng.below(3) as u8);
            }
            4 => b.alu(0xB0, rng.below(3) as u8, rng.below(3) as u8),
            5 => b.alu(0xC0, rng.below(3) as u8, rng.below(3) as u8),
            6 => {
                let base = *rng.pick(&[0x04u8, 0x30, 0x34, 0x38, 0x3C, 0x40, 0x44, 0x50, 0x48]);
                b.unary(base, rng.below(3) as u8);
            }
            7 => b.st_abs(data_addr(rng), rng.below(3) as u8),
            8 => b.ld_abs(rng.below(3) as u8, data_addr(rng)),
            9 => {
                // pointer traffic: LD R1,#p ; MOV (R1+),R0 ; MOV R2,(R1) ; MOV ((R1+)),Rx with a pointer cell
                let p = DATA_LO + rng.below(0x20) as u8;
                b.ld_imm(1, p);
                b.two(0x10, 2, 1, None, 0, 0, None);
                b.two(0x10, 0, 2, None, 1, 1, None);
                if rng.bool() {
                    b.st_abs_imm(p.wrapping_add(1), data_addr(rng));
                    b.two(0x10, 3, 1, None, 0, 2, None);
                }
            }
            10 => {
                let op = *rng.pick(&[0x20u8, 0x30, 0x50, 0x60]);
                // op (abs), #imm   or   op Rd, (abs)
                if rng.bool() {
                    b.two(op, 3, 3, Some(data_addr(rng)), 2, 3, Some(rng.byte_biased()));
                } else {
                    b.two(op, 0, rng.below(3) as u8, None, 3, 3, Some(data_addr(rng)));
                }
            }
            11 => {
                let n = 1 + rng.usize(3);
                let regs: Vec<u8> = (0..n).map(|_| rng.below(3) as u8).collect();
                for r in &regs {
                    b.push(*r);
                }
                if rng.bool() {
                    b.ld_imm(rng.below(3) as u8, rng.u8());
                }
                for r in regs.iter().rev() {
                    b.pop(if rng.chance(1, 4) { rng.below(3) as u8 } else { *r });
                }
            }
            12 => {
                // PUSHF ; op ; POPF
                b.emit(&[0x18]);
                b.alu(0x60, rng.below(3) as u8, rng.below(3) as u8);
                b.emit(&[0x1C]);
            }
            13 | 14 => {
                if !subs.is_empty() {
                    let l = *rng.pick(subs);
                    b.call(l);
                }
            }
            15 | 16 => {
                // bounded loop on R2
                let n = 1 + rng.below(6) as u8;
                b.ld_imm(2, n);
                let top = b.label();
                b.place(top);
                match rng.below(4) {
                    0 => b.alu(0x60, 0, 1),
                    1 => b.alu(0xB0, 0, 1),
                    2 => b.st_abs(data_addr(rng), 0),
                    _ => {
                        b.push(0);
                        b.pop(1);
                    }
                }
                b.unary(0x50, 2);
                b.jr(0b110, top); // JZC
            }
            17 => {
                // forward conditional jump over one instruction
                let l = b.label();
                b.jr(rng.below(8) as u8, l);
                b.ld_imm(rng.below(3) as u8, rng.u8());
                b.place(l);
            }
            18 => {
                if o.outputs {
                    b.st_abs(0xFE + rng.below(2) as u8, rng.below(3) as u8);
                } else {
                    b.emit(&[0x02]);
                }
            }
            19 => {
                // read an input register
                b.ld_abs(rng.below(3) as u8, 0xFC + rng.below(4) as u8);
            }
            20 => {
                if o.ie_changes {
                    match rng.below(4) {
                        0 => b.emit(&[0x0C]),
                        1 => b.emit(&[0x08]),
                        2 => {
                            // LDFR #v
                            b.emit(&[0xFB, rng.u8(), 0x44]);
                        }
                        _ => {
                            b.emit(&[0x0C, 0x02, 0x02, 0x08]);
                        }
                    }
                } else {
                    b.emit(&[0x02]);
                }
            }
            _ => {
                // DEC on memory operands and two-byte register forms
                let a = data_addr(rng);
                b.ld_imm(1, a);
                b.emit(&[0x54 | 1]);
                if rng.bool() {
                    b.emit(&[0x58 | 1]);
                }
            }
        }
    }
}

/// Subroutines: a few register operations, optional nested stack use, RET.
pub fn subroutine(b: &mut Builder, rng: &mut Rng) {
    let n = 1 + rng.usize(4);
    for _ in 0..n {
        match rng.below(5) {
            0 => b.alu(0x60, rng.below(3) as u8, rng.below(3) as u8),
            1 => b.unary(0x44, rng.below(3) as u8),
            2 => b.st_abs(data_addr(rng), rng.below(3) as u8),
            3 => {
                b.push(0);
                b.alu(0xB0, 0, 1);
                b.pop(0);
            }
            _ => b.alu(0xC0, rng.below(3) as u8, rng.below(3) as u8),
        }
    }
    b.emit(&[0x17]);
}
