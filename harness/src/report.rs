//! What a monitor observed: counters, distinct non-trivial classes, samples,
//! violations (deduplicated by signature) and reasons for being inconclusive.
use crate::json::J;
use std::collections::{BTreeMap, HashSet};

#[derive(Clone, Debug)]
pub struct Violation {
    pub signature: String,
    pub what: String,
    pub witness: J,
}

#[derive(Default, Debug)]
pub struct Report {
    pub evaluations: u64,
    pub counters: BTreeMap<String, u64>,
    pub distinct: HashSet<u64>,
    pub samples: Vec<J>,
    pub violations: BTreeMap<String, (u64, Violation)>,
    pub inconclusive: Vec<String>,
    /// Small bitset for "seen" marks (e.g. opcode bytes); merged by OR.
    pub marks: Vec<u64>,
}

pub fn hash_parts(parts: &[u64]) -> u64 {
    let mut h: u64 = 0xcbf2_9ce4_8422_2325;
    for p in parts {
        for b in p.to_le_bytes().iter() {
            h ^= *b as u64;
            h = h.wrapping_mul(0x0000_0100_0000_01B3);
        }
    }
    h
}

pub fn hash_str(s: &str) -> u64 {
    let mut h: u64 = 0xcbf2_9ce4_8422_2325;
    for b in s.bytes() {
        h ^= b as u64;
        h = h.wrapping_mul(0x0000_0100_0000_01B3);
    }
    h
}

impl Report {
    pub fn new() -> Self {
        Self::default()
    }
    pub fn count(&mut self, key: &str, n: u64) {
        if let Some(v) = self.counters.get_mut(key) {
            *v += n;
        } else {
            self.counters.insert(key.to_string(), n);
        }
    }
    pub fn mark(&mut self, i: usize) {
        if self.marks.len() <= i / 64 {
            self.marks.resize(i / 64 + 1, 0);
        }
        self.marks[i / 64] |= 1 << (i % 64);
    }
    pub fn marks_in(&self, lo: usize, hi: usize) -> u64 {
        (lo..hi).filter(|i| self.marks.get(i / 64).map(|w| w >> (i % 64) & 1 == 1).unwrap_or(false)).count() as u64
    }
    pub fn inc(&mut self, key: &str) {
        self.count(key, 1)
    }
    pub fn get(&self, key: &str) -> u64 {
        self.counters.get(key).copied().unwrap_or(0)
    }
    /// Record one distinct non-trivial class.
    pub fn class(&mut self, parts: &[u64]) {
        self.distinct.insert(hash_parts(parts));
    }
    pub fn class_str(&mut self, s: &str) {
        self.distinct.insert(hash_str(s));
    }
    pub fn sample(&mut self, j: J) {
        if self.samples.len() < 6 {
            self.samples.push(j);
        }
    }
    pub fn violate(&mut self, signature: &str, what: String, witness: J) {
        if let Some(e) = self.violations.get_mut(signature) {
            e.0 += 1;
        } else {
            self.violations.insert(
                signature.to_string(),
                (
                    1,
                    Violation {
                        signature: signature.to_string(),
                        what,
                        witness,
                    },
                ),
            );
        }
    }
    pub fn inconclusive(&mut self, why: String) {
        if self.inconclusive.len() < 20 {
            self.inconclusive.push(why);
        }
    }
    pub fn merge(&mut self, o: Report) {
        self.evaluations += o.evaluations;
        for (k, v) in o.counters {
            self.count(&k, v);
        }
        self.distinct.extend(o.distinct);
        for s in o.samples {
            if self.samples.len() < 8 {
                self.samples.push(s);
            }
        }
        for (k, (n, v)) in o.violations {
            if let Some(e) = self.violations.get_mut(&k) {
                e.0 += n;
            } else {
                self.violations.insert(k, (n, v));
            }
        }
        for i in o.inconclusive {
            self.inconclusive(i);
        }
        if self.marks.len() < o.marks.len() {
            self.marks.resize(o.marks.len(), 0);
        }
        for (i, w) in o.marks.iter().enumerate() {
            self.marks[i] |= *w;
        }
    }
}

/// Static description of a monitor, copied into the evidence file.
pub struct Meta {
    pub id: &'static str,
    pub rule: &'static str,
    pub exhaustive: bool,
    pub assumptions: Vec<&'static str>,
    /// Minimum observation counters: (counter, minimum). Below → inconclusive.
    pub floors: Vec<(&'static str, u64)>,
}
