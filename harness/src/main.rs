#![allow(dead_code, unused_imports, unused_macros)]
//! verif-harness: runtime monitors for the properties C01..C17 of 2a-emulator.
//! Usage: verif-harness <ID> --tier quick|thorough --seed N --out FILE
//!        [--threads N] [--replay FILE] [--emu PATH] [--work DIR] [--replays DIR]
#[macro_use]
mod json;
mod gen;
mod mon;
mod real;
mod refmodel;
mod report;
mod rng;
mod util;

use json::J;
use report::{Meta, Report};
use std::path::PathBuf;
use std::time::Instant;

#[derive(Clone, Copy, PartialEq, Eq, Debug)]
pub enum Tier {
    Quick,
    Thorough,
}

pub struct Ctx {
    pub tier: Tier,
    pub seed: u64,
    pub threads: usize,
    /// Built with overflow checks and debug assertions (dev-profile panic behaviour).
    pub checked: bool,
    pub emu: Option<PathBuf>,
    pub work: PathBuf,
    /// Scale factor for workload sizes (secondary passes use < 1).
    pub scale: f64,
}

impl Ctx {
    pub fn quick(&self) -> bool {
        self.tier == Tier::Quick
    }
    /// Pick a workload size by tier, scaled.
    pub fn size(&self, quick: u64, thorough: u64) -> u64 {
        let base = if self.quick() { quick } else { thorough };
        ((base as f64 * self.scale) as u64).max(1)
    }
}

type RunFn = fn(&Ctx) -> Report;
type ReplayFn = fn(&Ctx, &J) -> Report;

fn monitors() -> Vec<(Meta, RunFn, ReplayFn)> {
    macro_rules! m {
        ($($m:ident),*) => { vec![$((mon::$m::meta(), mon::$m::run as RunFn, mon::$m::replay as ReplayFn)),*] };
    }
    m!(c01, c02, c03, c04, c05, c06, c07, c08, c09, c10, c11, c12, c13, c14, c15, c16, c17)
}

fn main() {
    let args: Vec<String> = std::env::args().collect();
    if args.len() < 2 {
        eprintln!("usage: verif-harness <ID> --tier quick|thorough --seed N --out FILE [--replay FILE]");
        std::process::exit(2);
    }
    let id = args[1].to_uppercase();
    let mut tier = Tier::Quick;
    let mut seed: u64 = 1;
    let mut out: Option<PathBuf> = None;
    let mut replay: Option<PathBuf> = None;
    let mut threads = std::thread::available_parallelism().map(|n| n.get()).unwrap_or(4);
    let mut emu = None;
    let mut work = PathBuf::from("/verif/.work");
    let mut replays = PathBuf::from("/verif/replays");
    let mut scale = 1.0f64;
    let mut i = 2;
    while i < args.len() {
        let val = args.get(i + 1).cloned().unwrap_or_default();
        match args[i].as_str() {
            "--tier" => tier = if val == "thorough" { Tier::Thorough } else { Tier::Quick },
            "--seed" => seed = val.parse::<i64>().map(|v| v as u64).unwrap_or(1),
            "--out" => out = Some(PathBuf::from(&val)),
            "--replay" => replay = Some(PathBuf::from(&val)),
            "--threads" => threads = val.parse().unwrap_or(threads),
            "--emu" => emu = Some(PathBuf::from(&val)),
            "--work" => work = PathBuf::from(&val),
            "--replays" => replays = PathBuf::from(&val),
            "--scale" => scale = val.parse().unwrap_or(1.0),
            other => {
                eprintln!("unknown argument {}", other);
                std::process::exit(2);
            }
        }
        i += 2;
    }
    util::install_panic_hook();
    let ctx = Ctx { tier, seed, threads, checked: cfg!(debug_assertions), emu, work, scale };
    let (meta, run, replay_fn) = match monitors().into_iter().find(|(m, _, _)| m.id == id) {
        Some(m) => m,
        None => {
            eprintln!("no monitor for {}", id);
            std::process::exit(2);
        }
    };
    let start = Instant::now();
    let is_replay = replay.is_some();
    let mut rep = if let Some(path) = &replay {
        let text = std::fs::read_to_string(path).unwrap_or_else(|e| {
            eprintln!("cannot read replay {}: {}", path.display(), e);
            std::process::exit(2);
        });
        let j = J::parse(&text).unwrap_or_else(|e| {
            eprintln!("cannot parse replay {}: {}", path.display(), e);
            std::process::exit(2);
        });
        let w = j.get("witness").cloned().unwrap_or(j);
        replay_fn(&ctx, &w)
    } else {
        run(&ctx)
    };
    let wall = start.elapsed().as_secs_f64();
    // observation floors
    let mut floors = vec![];
    for (k, min) in &meta.floors {
        let got = rep.get(k);
        floors.push((k.to_string(), J::Obj(vec![("min".into(), J::from(*min)), ("observed".into(), J::from(got))])));
        if !is_replay && got < *min && ctx.scale >= 1.0 {
            rep.inconclusive(format!("observation floor not met: {} = {} < {}", k, got, min));
        }
    }
    if !is_replay && rep.evaluations == 0 {
        rep.inconclusive("no evaluations".to_string());
    }
    // violations: write replay files
    let _ = std::fs::create_dir_all(&replays);
    let mut vio = vec![];
    for (n, (sig, (count, v))) in rep.violations.iter().enumerate() {
        let path = replays.join(format!("{}-{}-{}.json", meta.id, seed, n));
        let doc = obj![("property", meta.id), ("signature", sig.clone()), ("seed", seed), ("what", v.what.clone()), ("witness", v.witness.clone())];
        let path_s = if is_replay {
            replay.as_ref().unwrap().display().to_string()
        } else {
            let _ = std::fs::write(&path, doc.dump());
            path.display().to_string()
        };
        vio.push(obj![("signature", sig.clone()), ("count", *count), ("what", v.what.clone()), ("replay", path_s)]);
    }
    let counters = J::Obj(rep.counters.iter().map(|(k, v)| (k.clone(), J::from(*v))).collect());
    let mut samples = rep.samples.clone();
    if samples.is_empty() {
        samples.push(J::from("(no sample recorded)"));
    }
    let coverage = obj![
        ("evaluations", rep.evaluations),
        ("distinct_nontrivial", rep.distinct.len()),
        ("rule", meta.rule),
        ("samples", J::Arr(samples)),
        ("exhaustive", meta.exhaustive),
        ("profile", if ctx.checked { "checked (release + overflow-checks + debug-assertions)" } else { "release" }),
        ("threads", threads),
        ("observed", counters),
        ("observation_floors", J::Obj(floors)),
    ];
    let doc = obj![
        ("property_id", meta.id),
        ("tier", if tier == Tier::Quick { "quick" } else { "thorough" }),
        ("seed", J::Int(seed as i64)),
        ("level", "exploration"),
        ("coverage", coverage),
        ("assumptions", J::Arr(meta.assumptions.iter().map(|s| J::from(*s)).collect())),
        ("wall_s", wall),
        ("violations", rep.violations.len()),
        ("_violations", J::Arr(vio)),
        ("_inconclusive", J::Arr(rep.inconclusive.iter().map(|s| J::from(s.clone())).collect())),
    ];
    let text = doc.dump();
    match out {
        Some(p) => std::fs::write(&p, text).expect("cannot write result file"),
        None => println!("{}", text),
    }
}
