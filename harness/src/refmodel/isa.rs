//! Instruction-level reference interpreter of the Minirechner 2a.
//!
//! One `step()` executes one whole machine instruction *sequentially* on an
//! architectural state (R0-R2, PC, FR, SP) and an abstract bus, and reports
//! the documented micro-step count of the path taken and the bus accesses in
//! order (used by C15). It knows nothing about control words, pipelining or
//! pending writes; it is the "instruction set definition" the CPU is compared
//! against (C01), see DESIGN.md appendix A.

pub const C: u8 = 0x01;
pub const Z: u8 = 0x02;
pub const N: u8 = 0x04;
pub const IE: u8 = 0x08;

pub trait BusModel {
    fn read(&mut self, addr: u8) -> u8;
    fn write(&mut self, addr: u8, val: u8);
}

#[derive(Clone, Debug, PartialEq, Eq)]
pub struct Cpu {
    /// R0, R1, R2, R3 = PC
    pub r: [u8; 4],
    pub fr: u8,
    pub sp: u8,
}

#[derive(Clone, Copy, Debug, PartialEq, Eq)]
pub enum Access {
    Read(u8),
    Write(u8),
}

impl Access {
    pub fn addr(&self) -> u8 {
        match *self {
            Access::Read(a) | Access::Write(a) => a,
        }
    }
}

#[derive(Clone, Debug, PartialEq, Eq)]
pub enum Outcome {
    /// Instruction completed: micro-steps executed (including the opcode
    /// fetch step and, for two-byte forms, the second fetch step) and the bus
    /// accesses of those steps in order (at most one per step).
    Done { steps: u32, accesses: Vec<Access>, class: Class },
    /// Opcode byte 0x00 loaded (error stop) / 0x01 loaded (stop); the PC has
    /// been incremented past it. `second` tells whether it was a second byte.
    Halt { byte: u8, second: bool },
    /// Undefined first or second byte: never completes.
    Undefined { second: bool },
    /// Defined by the control store but outside what the assembler can emit
    /// and outside the reference (second bytes 0x02-0x0F): not compared.
    Unspecified,
}

/// Coarse instruction class, used for coverage accounting and signatures.
#[derive(Clone, Copy, Debug, PartialEq, Eq, Hash)]
pub enum Class {
    Nop, Clr, Ei, Di, Push, Pop, PushF, PopF, Jr, Call, Reti, Com, Neg, Lsr, Asr, Rrc, Inc, Tst,
    Dec, DecMem, Add, Adc, Sub, And, Or, Xor, Mul, Div, Mov, Cmp, Bitt, Ldsp, Ldfr, Bits, Bitc,
}

impl Class {
    pub fn name(&self) -> &'static str {
        use Class::*;
        match self {
            Nop => "NOP", Clr => "CLR", Ei => "EI", Di => "DI", Push => "PUSH", Pop => "POP", PushF => "PUSHF",
            PopF => "POPF", Jr => "JR", Call => "CALL", Reti => "RETI", Com => "COM", Neg => "NEG", Lsr => "LSR",
            Asr => "ASR", Rrc => "RRC", Inc => "INC", Tst => "TST", Dec => "DEC", DecMem => "DECM", Add => "ADD",
            Adc => "ADC", Sub => "SUB", And => "AND", Or => "OR", Xor => "XOR", Mul => "MUL", Div => "DIV",
            Mov => "MOV", Cmp => "CMP", Bitt => "BITT", Ldsp => "LDSP", Ldfr => "LDFR", Bits => "BITS", Bitc => "BITC",
        }
    }
}

struct Exec<'a, B: BusModel> {
    cpu: &'a mut Cpu,
    bus: &'a mut B,
    steps: u32,
    acc: Vec<Access>,
}

impl<'a, B: BusModel> Exec<'a, B> {
    fn rd(&mut self, a: u8) -> u8 {
        self.acc.push(Access::Read(a));
        self.bus.read(a)
    }
    fn wr(&mut self, a: u8, v: u8) {
        self.acc.push(Access::Write(a));
        self.bus.write(a, v)
    }
    fn fetch(&mut self) -> u8 {
        let pc = self.cpu.r[3];
        let b = self.rd(pc);
        self.cpu.r[3] = pc.wrapping_add(1);
        self.steps += 1;
        b
    }
    fn set_czn(&mut self, c: bool, v: u8) {
        let mut f = self.cpu.fr & !(C | Z | N);
        if c {
            f |= C;
        }
        if v == 0 {
            f |= Z;
        }
        if v & 0x80 != 0 {
            f |= N;
        }
        self.cpu.fr = f;
    }
    fn carry(&self) -> bool {
        self.cpu.fr & C != 0
    }
    /// Fetch the destination operand value for CMP/BITT style reads
    /// (mode 00 register, 01 (R), 10 (R+), 11 ((R+))). Returns value; steps
    /// and post-increment applied as the instruction table does.
    fn dst_read(&mut self, mode: u8, d: usize) -> u8 {
        match mode {
            0 => {
                self.steps += 1;
                self.cpu.r[d]
            }
            1 => {
                self.steps += 1;
                let a = self.cpu.r[d];
                self.rd(a)
            }
            2 => {
                self.steps += 2;
                let a = self.cpu.r[d];
                let v = self.rd(a);
                self.cpu.r[d] = a.wrapping_add(1);
                v
            }
            _ => {
                self.steps += 3;
                let a = self.cpu.r[d];
                let p = self.rd(a);
                let v = self.rd(p);
                self.cpu.r[d] = a.wrapping_add(1);
                v
            }
        }
    }
}

fn sub_flags(a: u8, b: u8) -> (u8, bool) {
    (a.wrapping_sub(b), a < b)
}

/// Execute one instruction starting with the opcode fetch at PC.
pub fn step<B: BusModel>(cpu: &mut Cpu, bus: &mut B) -> Outcome {
    let mut x = Exec { cpu, bus, steps: 0, acc: Vec::with_capacity(6) };
    let op = x.fetch();
    if op <= 0x01 {
        return Outcome::Halt { byte: op, second: false };
    }
    let d = (op & 3) as usize;
    let s = ((op >> 2) & 3) as usize;
    let class;
    match op >> 4 {
        0x0 => match op >> 2 {
            0 => {
                // 02, 03: NOP
                x.steps += 1;
                class = Class::Nop;
            }
            1 => {
                x.cpu.r[d] = 0;
                x.steps += 1;
                class = Class::Clr;
            }
            2 => {
                x.cpu.fr |= 0xF8;
                x.steps += 2;
                class = Class::Ei;
            }
            _ => {
                x.cpu.fr &= 0x07;
                x.steps += 2;
                class = Class::Di;
            }
        },
        0x1 => match op >> 2 & 3 {
            0 => {
                let v = x.cpu.r[d];
                x.cpu.sp = x.cpu.sp.wrapping_sub(1);
                let sp = x.cpu.sp;
                x.wr(sp, v);
                x.steps += 3;
                class = Class::Push;
            }
            1 => {
                let sp = x.cpu.sp;
                let v = x.rd(sp);
                x.cpu.r[d] = v;
                x.cpu.sp = sp.wrapping_add(1);
                x.steps += 3;
                class = Class::Pop;
            }
            2 => {
                let v = x.cpu.fr;
                x.cpu.sp = x.cpu.sp.wrapping_sub(1);
                let sp = x.cpu.sp;
                x.wr(sp, v);
                x.steps += 3;
                class = Class::PushF;
            }
            _ => {
                let sp = x.cpu.sp;
                x.cpu.fr = x.rd(sp);
                x.cpu.sp = sp.wrapping_add(1);
                x.steps += 2;
                class = Class::PopF;
            }
        },
        0x2 => {
            if op < 0x28 {
                // JR family
                let sel = match op & 3 {
                    0 => true,
                    1 => x.cpu.fr & C != 0,
                    2 => x.cpu.fr & Z != 0,
                    _ => x.cpu.fr & N != 0,
                };
                let taken = (op & 4 != 0) ^ sel;
                let pc = x.cpu.r[3];
                if taken {
                    let o = x.rd(pc);
                    x.cpu.r[3] = pc.wrapping_add(1).wrapping_add(o);
                } else {
                    x.cpu.r[3] = pc.wrapping_add(1);
                }
                x.steps += 2;
                class = Class::Jr;
            } else if op < 0x2C {
                // CALL: push the return address, then read the target
                let operand_at = x.cpu.r[3];
                x.cpu.sp = x.cpu.sp.wrapping_sub(1);
                let ret = operand_at.wrapping_add(1);
                let sp = x.cpu.sp;
                x.wr(sp, ret);
                x.cpu.r[3] = x.rd(operand_at);
                x.steps += 5;
                class = Class::Call;
            } else {
                // RETI
                let sp = x.cpu.sp;
                x.cpu.r[3] = x.rd(sp);
                let sp = sp.wrapping_add(1);
                x.cpu.fr = x.rd(sp);
                x.cpu.sp = sp.wrapping_add(1);
                x.steps += 4;
                class = Class::Reti;
            }
        }
        0x3 => {
            let v = x.cpu.r[d];
            match s {
                0 => {
                    let r = !v;
                    x.cpu.r[d] = r;
                    x.set_czn(false, r);
                    x.steps += 1;
                    class = Class::Com;
                }
                1 => {
                    let r = (!v).wrapping_add(1);
                    x.cpu.r[d] = r;
                    x.set_czn(v == 0, r);
                    x.steps += 2;
                    class = Class::Neg;
                }
                2 => {
                    let r = v >> 1;
                    x.cpu.r[d] = r;
                    x.set_czn(v & 1 != 0, r);
                    x.steps += 1;
                    class = Class::Lsr;
                }
                _ => {
                    let r = (v >> 1) | (v & 0x80);
                    x.cpu.r[d] = r;
                    x.set_czn(v & 1 != 0, r);
                    x.steps += 1;
                    class = Class::Asr;
                }
            }
        }
        0x4 => {
            let v = x.cpu.r[d];
            match s {
                0 => {
                    let r = (v >> 1) | ((x.carry() as u8) << 7);
                    x.cpu.r[d] = r;
                    x.set_czn(v & 1 != 0, r);
                    class = Class::Rrc;
                }
                1 => {
                    let r = v.wrapping_add(1);
                    x.cpu.r[d] = r;
                    x.set_czn(v == 0xFF, r);
                    class = Class::Inc;
                }
                2 => {
                    x.set_czn(false, v);
                    class = Class::Tst;
                }
                _ => return Outcome::Undefined { second: false },
            }
            x.steps += 1;
        }
        0x5 => {
            if s == 0 {
                let v = x.cpu.r[d];
                let (r, b) = sub_flags(v, 1);
                x.cpu.r[d] = r;
                x.set_czn(b, r);
                x.steps += 1;
                class = Class::Dec;
            } else {
                // memory operand decremented in place
                let a = x.cpu.r[d];
                match s {
                    1 => {
                        let v = x.rd(a);
                        let (r, b) = sub_flags(v, 1);
                        x.set_czn(b, r);
                        x.wr(a, r);
                        x.steps += 3;
                    }
                    2 => {
                        let v = x.rd(a);
                        let (r, b) = sub_flags(v, 1);
                        x.set_czn(b, r);
                        x.wr(a, r);
                        x.cpu.r[d] = x.cpu.r[d].wrapping_add(1);
                        x.steps += 4;
                    }
                    _ => {
                        let p = x.rd(a);
                        let v = x.rd(p);
                        let (r, b) = sub_flags(v, 1);
                        x.set_czn(b, r);
                        x.wr(p, r);
                        x.cpu.r[d] = x.cpu.r[d].wrapping_add(1);
                        x.steps += 5;
                    }
                }
                class = Class::DecMem;
            }
        }
        0x6 => {
            let (a, b) = (x.cpu.r[d], x.cpu.r[s]);
            let r = a as u16 + b as u16;
            x.cpu.r[d] = r as u8;
            x.set_czn(r > 0xFF, r as u8);
            x.steps += 1;
            class = Class::Add;
        }
        0x7 => {
            let (a, b) = (x.cpu.r[d], x.cpu.r[s]);
            let r = a as u16 + b as u16 + x.carry() as u16;
            x.cpu.r[d] = r as u8;
            x.set_czn(r > 0xFF, r as u8);
            x.steps += 1;
            class = Class::Adc;
        }
        0x8 => {
            let (a, b) = (x.cpu.r[d], x.cpu.r[s]);
            let (r, bo) = sub_flags(a, b);
            x.cpu.r[d] = r;
            x.set_czn(bo, r);
            x.steps += 3;
            class = Class::Sub;
        }
        0x9 => {
            let r = x.cpu.r[d] & x.cpu.r[s];
            x.cpu.r[d] = r;
            x.set_czn(false, r);
            x.steps += 6;
            class = Class::And;
        }
        0xA => {
            let r = x.cpu.r[d] | x.cpu.r[s];
            x.cpu.r[d] = r;
            x.set_czn(false, r);
            x.steps += 4;
            class = Class::Or;
        }
        0xD => {
            let r = x.cpu.r[d] ^ x.cpu.r[s];
            x.cpu.r[d] = r;
            x.set_czn(false, r);
            x.steps += 7;
            class = Class::Xor;
        }
        0xB => {
            // MUL: shift-and-add; multiplicand taken from Rs first, multiplier
            // shifted out of Rd, result written back to Rd at the end.
            let mut mcand = x.cpu.r[s];
            let mut acc: u8 = 0;
            let mut carry = false;
            let mut steps = 2;
            loop {
                let m = x.cpu.r[d];
                let bit = m & 1 != 0;
                x.cpu.r[d] = m >> 1;
                steps += 1;
                if bit {
                    let t = acc as u16 + mcand as u16;
                    carry |= t > 0xFF;
                    acc = t as u8;
                    steps += 1;
                }
                steps += 1;
                if x.cpu.r[d] == 0 {
                    break;
                }
                let t = (mcand as u16) << 1;
                carry |= t > 0xFF;
                mcand = t as u8;
                steps += 1;
            }
            x.cpu.r[d] = acc;
            x.set_czn(carry, acc);
            x.steps += steps + 1;
            class = Class::Mul;
        }
        0xC => {
            let dv = x.cpu.r[s];
            if dv == 0 {
                x.cpu.r[d] = 0xFF;
                x.set_czn(true, 0xFF);
                x.steps += 4;
            } else {
                // repeated subtraction; Rd is both dividend and (when d == s) divisor register
                let mut q: u8 = 0;
                let mut rem = x.cpu.r[d];
                while rem >= dv {
                    rem -= dv;
                    q = q.wrapping_add(1);
                }
                x.cpu.r[d] = q;
                x.set_czn(false, q);
                x.steps += 5 + 2 * q as u32;
            }
            class = Class::Div;
        }
        0xE => return Outcome::Undefined { second: false },
        _ => {
            // 0xF: two-byte forms. First byte 1111 MM RR is the source.
            let mode = s as u8;
            let src = match mode {
                0 => {
                    x.steps += 1;
                    x.cpu.r[d]
                }
                1 => {
                    x.steps += 1;
                    let a = x.cpu.r[d];
                    x.rd(a)
                }
                2 => {
                    x.steps += 2;
                    let a = x.cpu.r[d];
                    let v = x.rd(a);
                    x.cpu.r[d] = a.wrapping_add(1);
                    v
                }
                _ => {
                    x.steps += 3;
                    let a = x.cpu.r[d];
                    let p = x.rd(a);
                    let v = x.rd(p);
                    x.cpu.r[d] = a.wrapping_add(1);
                    v
                }
            };
            let op2 = x.fetch();
            if op2 <= 0x01 {
                return Outcome::Halt { byte: op2, second: true };
            }
            let d2 = (op2 & 3) as usize;
            let m2 = (op2 >> 2) & 3;
            match op2 >> 4 {
                0x0 => return Outcome::Unspecified,
                0x1 => {
                    match m2 {
                        0 => {
                            x.cpu.r[d2] = src;
                            x.steps += 1;
                        }
                        1 => {
                            let a = x.cpu.r[d2];
                            x.wr(a, src);
                            x.steps += 1;
                        }
                        2 => {
                            let a = x.cpu.r[d2];
                            x.wr(a, src);
                            x.cpu.r[d2] = a.wrapping_add(1);
                            x.steps += 2;
                        }
                        _ => {
                            let a = x.cpu.r[d2];
                            let p = x.rd(a);
                            x.wr(p, src);
                            x.cpu.r[d2] = x.cpu.r[d2].wrapping_add(1);
                            x.steps += 3;
                        }
                    }
                    class = Class::Mov;
                }
                0x2 => {
                    let v = x.dst_read(m2, d2);
                    let (r, b) = sub_flags(v, src);
                    x.set_czn(b, r);
                    x.steps += 2;
                    class = Class::Cmp;
                }
                0x3 => {
                    let v = x.dst_read(m2, d2);
                    let r = v & src;
                    x.set_czn(false, r);
                    x.steps += 3;
                    class = Class::Bitt;
                }
                0x4 => {
                    if op2 < 0x44 {
                        x.cpu.sp = src;
                        x.set_czn(false, src);
                        x.steps += 1;
                        class = Class::Ldsp;
                    } else if op2 < 0x48 {
                        x.cpu.fr = src;
                        x.steps += 1;
                        class = Class::Ldfr;
                    } else {
                        return Outcome::Undefined { second: true };
                    }
                }
                0x5 => {
                    match m2 {
                        0 => {
                            let r = x.cpu.r[d2] | src;
                            x.cpu.r[d2] = r;
                            x.set_czn(false, r);
                            x.steps += 3;
                        }
                        1 | 2 => {
                            let a = x.cpu.r[d2];
                            let r = x.rd(a) | src;
                            x.set_czn(false, r);
                            x.wr(a, r);
                            x.steps += 3;
                            if m2 == 2 {
                                x.cpu.r[d2] = x.cpu.r[d2].wrapping_add(1);
                                x.steps += 1;
                            }
                        }
                        _ => {
                            let a = x.cpu.r[d2];
                            let p = x.rd(a);
                            let r = x.rd(p) | src;
                            x.set_czn(false, r);
                            x.wr(p, r);
                            x.cpu.r[d2] = x.cpu.r[d2].wrapping_add(1);
                            x.steps += 5;
                        }
                    }
                    class = Class::Bits;
                }
                0x6 => {
                    match m2 {
                        0 => {
                            let r = x.cpu.r[d2] & !src;
                            x.cpu.r[d2] = r;
                            x.set_czn(false, r);
                            x.steps += 4;
                        }
                        1 | 2 => {
                            let a = x.cpu.r[d2];
                            let r = x.rd(a) & !src;
                            x.set_czn(false, r);
                            x.wr(a, r);
                            x.steps += 4;
                            if m2 == 2 {
                                x.cpu.r[d2] = x.cpu.r[d2].wrapping_add(1);
                                x.steps += 1;
                            }
                        }
                        _ => {
                            let a = x.cpu.r[d2];
                            let p = x.rd(a);
                            let r = x.rd(p) & !src;
                            // the pointer is read a second time for the write-back
                            let p2 = x.rd(a);
                            x.set_czn(false, r);
                            x.wr(p2, r);
                            x.cpu.r[d2] = x.cpu.r[d2].wrapping_add(1);
                            x.steps += 7;
                        }
                    }
                    class = Class::Bitc;
                }
                _ => return Outcome::Undefined { second: true },
            }
        }
    }
    Outcome::Done { steps: x.steps, accesses: x.acc, class }
}
