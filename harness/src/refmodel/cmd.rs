//! The documented command language of the interactive session (statement of
//! C17 + README "Commands"), three-valued: a line must be executed with a
//! known effect, must be rejected, or is left open.

#[derive(Debug, Clone, PartialEq)]
pub enum Effect {
    SetInput(u8, u8),
    SetIrg(u8),
    SetTemp(f32),
    SetI1(f32),
    SetI2(f32),
    SetJ1(bool),
    SetJ2(bool),
    SetUio(u8, bool),
    ShowRegister,
    ShowMemory,
    Next(usize),
    Load(String),
    Quit,
}

#[derive(Debug, Clone, PartialEq)]
pub enum Class {
    MustAccept(Effect),
    MustReject(&'static str),
    /// Spelling the documentation leaves open: the line may be rejected, but IF it is executed it
    /// must have exactly this effect.
    Either(Effect, &'static str),
    Unspecified(&'static str),
}

fn is_ws(c: char) -> bool {
    c == ' ' || c == '\t'
}

#[derive(Debug, PartialEq)]
enum Lit {
    Canonical(u8),
    /// a number <= 255 in an unusual spelling (leading zeros, upper-case prefix)
    Unusual(u8),
    TooLarge,
    NotANumber,
}

/// Canonical byte literal: decimal without leading zeros, 0x + 1..2 hex
/// digits, 0b + 1..8 bits (the token is already lower-cased; `upper_prefix`
/// tells whether the original had 0X / 0B).
fn byte_literal(s: &str, upper_prefix: bool) -> Lit {
    if s.is_empty() {
        return Lit::NotANumber;
    }
    let (digits, radix) = if let Some(r) = s.strip_prefix("0x") {
        (r, 16)
    } else if let Some(r) = s.strip_prefix("0b") {
        (r, 2)
    } else {
        (s, 10)
    };
    if digits.is_empty() || !digits.chars().all(|c| c.is_digit(radix)) {
        return Lit::NotANumber;
    }
    // value (saturating)
    let mut v: u64 = 0;
    for c in digits.chars() {
        v = (v * radix as u64 + c.to_digit(radix).unwrap() as u64).min(1 << 40);
    }
    if v > 255 {
        return Lit::TooLarge;
    }
    let canonical = match radix {
        10 => digits == "0" || !digits.starts_with('0'),
        16 => digits.len() <= 2,
        _ => digits.len() <= 8,
    };
    if canonical && !upper_prefix {
        Lit::Canonical(v as u8)
    } else {
        Lit::Unusual(v as u8)
    }
}

fn simple_float(s: &str) -> Option<f32> {
    // digits [ "." digits ]
    let mut parts = s.split('.');
    let a = parts.next()?;
    let b = parts.next();
    if parts.next().is_some() || a.is_empty() || a.len() > 6 || !a.chars().all(|c| c.is_ascii_digit()) {
        return None;
    }
    if let Some(b) = b {
        if b.is_empty() || b.len() > 6 || !b.chars().all(|c| c.is_ascii_digit()) {
            return None;
        }
    }
    s.parse::<f32>().ok()
}

const KEYWORDS: &[&str] = &["set", "unset", "show", "next", "load", "quit", "exit", "fc", "fd", "fe", "ff"];

pub fn classify(line: &str) -> Class {
    use Class::*;
    use Effect::*;
    if line.starts_with(is_ws) || line.ends_with(is_ws) {
        // blanks around a command: not stated anywhere
        let t = line.trim_matches(is_ws);
        if t.is_empty() {
            // a submitted line is rejected or executed as a documented command; blanks are no command
            return MustReject("only blanks");
        }
        return match classify(t) {
            MustReject(r) if !t.is_empty() => MustReject(r),
            MustAccept(e) | Either(e, _) => Either(e, "leading or trailing blanks"),
            _ => Unspecified("leading or trailing blanks"),
        };
    }
    let lower = line.to_lowercase();
    let upper_prefix = line.contains("0X") || line.contains("0B");
    if !KEYWORDS.iter().any(|k| lower.starts_with(k)) {
        return MustReject("no command keyword");
    }
    if !line.is_ascii() {
        return Unspecified("non-ASCII text after a keyword");
    }
    // words separated by blanks, '=' is its own token
    let mut toks: Vec<String> = vec![];
    let mut cur = String::new();
    for c in lower.chars() {
        if is_ws(c) {
            if !cur.is_empty() {
                toks.push(std::mem::take(&mut cur));
            }
        } else if c == '=' {
            if !cur.is_empty() {
                toks.push(std::mem::take(&mut cur));
            }
            toks.push("=".into());
        } else {
            cur.push(c);
        }
    }
    if !cur.is_empty() {
        toks.push(cur);
    }
    let t: Vec<&str> = toks.iter().map(|s| s.as_str()).collect();
    let reg = |s: &str| ["fc", "fd", "fe", "ff"].iter().position(|r| *r == s).map(|p| p as u8);
    // [set] REG = BYTE
    let (is_set, rest) = if t.first() == Some(&"set") { (true, &t[1..]) } else { (false, &t[..]) };
    if let Some(r) = rest.first().and_then(|s| reg(s)) {
        if is_set && !lower.starts_with("set ") && !lower.starts_with("set\t") {
            return Unspecified("set without a blank");
        }
        return match rest {
            [_, "="] => MustReject("missing value"),
            [_, "=", v] => match byte_literal(v, upper_prefix) {
                Lit::Canonical(x) => MustAccept(SetInput(r, x)),
                Lit::TooLarge => MustReject("value above 255"),
                Lit::Unusual(x) => Either(SetInput(r, x), "unusual spelling of the value"),
                Lit::NotANumber => Unspecified("value is not a number"),
            },
            _ => Unspecified("register assignment with extra or missing tokens"),
        };
    }
    match t.as_slice() {
        ["set", "irg", "="] | ["set", "temp", "="] | ["set", "i1", "="] | ["set", "i2", "="] => MustReject("missing value"),
        ["set", "irg", "=", v] => match byte_literal(v, upper_prefix) {
            Lit::Canonical(x) => MustAccept(SetIrg(x)),
            Lit::TooLarge => MustReject("value above 255"),
            Lit::Unusual(x) => Either(SetIrg(x), "unusual spelling of the value"),
            Lit::NotANumber => Unspecified("value is not a number"),
        },
        ["set", which @ ("temp" | "i1" | "i2"), "=", v] => match simple_float(v) {
            Some(f) => MustAccept(match *which {
                "temp" => SetTemp(f),
                "i1" => SetI1(f),
                _ => SetI2(f),
            }),
            None => Unspecified("voltage not in plain decimal notation"),
        },
        [op @ ("set" | "unset"), what @ ("j1" | "j2" | "uio1" | "uio2" | "uio3")] => {
            let v = *op == "set";
            MustAccept(match *what {
                "j1" => SetJ1(v),
                "j2" => SetJ2(v),
                "uio1" => SetUio(0, v),
                "uio2" => SetUio(1, v),
                _ => SetUio(2, v),
            })
        }
        ["show", "register"] => MustAccept(ShowRegister),
        ["show", "memory"] => MustAccept(ShowMemory),
        ["show"] => MustReject("missing part"),
        ["next"] => MustAccept(Next(1)),
        ["next", n] => {
            if n.chars().all(|c| c.is_ascii_digit()) && n.len() <= 5 && (*n == "0" || !n.starts_with('0')) {
                MustAccept(Next(n.parse().unwrap()))
            } else {
                Unspecified("next with an unusual count")
            }
        }
        ["quit"] => MustAccept(Quit),
        ["exit"] => Either(Quit, "undocumented alias of quit"),
        ["load"] => MustReject("missing path"),
        ["load", ..] => {
            // the path is the rest of the line after "load" and one blank, verbatim
            let p = &line[4..];
            let path = p.trim_start_matches(is_ws);
            if p.len() - path.len() == 1 && !path.is_empty() {
                MustAccept(Load(path.to_string()))
            } else {
                Unspecified("load with unusual spacing")
            }
        }
        _ => Unspecified("keyword followed by something else"),
    }
}
