//! Reference encoder: AST -> byte image per the documented instruction table,
//! with its own address counter and a case-insensitive label table
//! (statement of C02). Independent of /repo's translator.
use emulator_2a_lib::parser::{Asm, Constant, Destination, Instruction, Line, MemAddress, Programsize, Register, RegisterDdi, RegisterDi, Source, Stacksize};
use std::collections::HashMap;

#[derive(Debug, Clone, PartialEq)]
pub struct Encoded {
    /// bytes produced by each source line, in order
    pub lines: Vec<Vec<u8>>,
    pub stacksize: Stacksize,
    pub programsize: Programsize,
}

#[derive(Debug, Clone, PartialEq)]
pub enum Unencodable {
    /// .ORG below the current address
    BackwardOrg { line: usize },
    /// the image does not fit into the 240-byte RAM (or the 8-bit address counter)
    TooLarge { bytes: usize },
    UndefinedLabel(String),
}

enum B {
    Byte(u8),
    Label(String),
    Rel(String, u8),
}

fn r(reg: &Register) -> u8 {
    match reg {
        Register::R0 => 0,
        Register::R1 => 1,
        Register::R2 => 2,
        Register::R3 => 3,
    }
}

fn c(k: &Constant) -> B {
    match k {
        Constant::Constant(v) => B::Byte(*v),
        Constant::Label(l) => B::Label(l.clone()),
    }
}

/// (mode, register, following byte) of a source operand
fn src(s: &Source) -> (u8, u8, Option<B>) {
    match s {
        Source::Register(x) => (0, r(x), None),
        Source::MemAddress(MemAddress::Register(x)) => (1, r(x), None),
        Source::RegisterDi(RegisterDi(x)) => (2, r(x), None),
        Source::RegisterDdi(RegisterDdi(x)) => (3, r(x), None),
        Source::Constant(k) => (2, 3, Some(c(k))),
        Source::MemAddress(MemAddress::Constant(k)) => (3, 3, Some(c(k))),
    }
}

fn dst(d: &Destination) -> (u8, u8, Option<B>) {
    match d {
        Destination::Register(x) => (0, r(x), None),
        Destination::MemAddress(MemAddress::Register(x)) => (1, r(x), None),
        Destination::RegisterDi(RegisterDi(x)) => (2, r(x), None),
        Destination::RegisterDdi(RegisterDdi(x)) => (3, r(x), None),
        Destination::MemAddress(MemAddress::Constant(k)) => (3, 3, Some(c(k))),
    }
}

fn two(op: u8, d: &Destination, s: &Source) -> Vec<B> {
    let (sm, sr, se) = src(s);
    let (dm, dr, de) = dst(d);
    let mut v = vec![B::Byte(0xF0 | sm << 2 | sr)];
    if let Some(e) = se {
        v.push(e);
    }
    v.push(B::Byte(op | dm << 2 | dr));
    if let Some(e) = de {
        v.push(e);
    }
    v
}

fn src_then(op2: u8, s: &Source) -> Vec<B> {
    let (sm, sr, se) = src(s);
    let mut v = vec![B::Byte(0xF0 | sm << 2 | sr)];
    if let Some(e) = se {
        v.push(e);
    }
    v.push(B::Byte(op2));
    v
}

fn rr(base: u8, d: &Register, s: &Register) -> Vec<B> {
    vec![B::Byte(base | r(s) << 2 | r(d))]
}

fn one(base: u8, x: &Register) -> Vec<B> {
    vec![B::Byte(base | r(x))]
}

pub fn encode(asm: &Asm) -> Result<Encoded, Unencodable> {
    use Instruction::*;
    let mut labels: HashMap<String, u8> = HashMap::new();
    let mut out: Vec<Vec<B>> = vec![];
    let mut addr: usize = 0;
    let mut stacksize = Stacksize::_16;
    let mut programsize = Programsize::Auto;
    for (ln, line) in asm.lines.iter().enumerate() {
        let bytes: Vec<B> = match line {
            Line::Empty(_) => vec![],
            Line::Label(l, _) => {
                labels.insert(l.to_lowercase(), addr as u8);
                vec![]
            }
            Line::Instruction(i, _) => match i {
                AsmOrigin(a) => {
                    if (*a as usize) < addr {
                        return Err(Unencodable::BackwardOrg { line: ln });
                    }
                    (addr..*a as usize).map(|_| B::Byte(0)).collect()
                }
                AsmByte(n) => (0..*n).map(|_| B::Byte(0)).collect(),
                AsmDefineBytes(v) => v.iter().map(|b| B::Byte(*b)).collect(),
                AsmDefineWords(v) => v.iter().flat_map(|w| vec![B::Byte((*w >> 8) as u8), B::Byte(*w as u8)]).collect(),
                AsmEquals(l, v) => {
                    labels.insert(l.to_lowercase(), *v);
                    vec![]
                }
                AsmStacksize(s) => {
                    stacksize = *s;
                    vec![]
                }
                AsmProgramsize(p) => {
                    programsize = *p;
                    vec![]
                }
                Clr(x) => one(0x04, x),
                Add(d, s) => rr(0x60, d, s),
                Adc(d, s) => rr(0x70, d, s),
                Sub(d, s) => rr(0x80, d, s),
                Mul(d, s) => rr(0xB0, d, s),
                Div(d, s) => rr(0xC0, d, s),
                Inc(x) => one(0x44, x),
                Dec(s) => {
                    let (m, x, e) = src(s);
                    let mut v = vec![B::Byte(0x50 | m << 2 | x)];
                    if let Some(e) = e {
                        v.push(e);
                    }
                    v
                }
                Neg(x) => one(0x34, x),
                And(d, s) => rr(0x90, d, s),
                Or(d, s) => rr(0xA0, d, s),
                Xor(d, s) => rr(0xD0, d, s),
                Com(x) => one(0x30, x),
                Bits(d, s) => two(0x50, d, s),
                Bitc(d, s) => two(0x60, d, s),
                Tst(x) => one(0x48, x),
                Cmp(d, s) => two(0x20, d, s),
                Bitt(d, s) => two(0x30, d, s),
                Lsr(x) => one(0x38, x),
                Asr(x) => one(0x3C, x),
                Lsl(x) => rr(0x60, x, x),
                Rrc(x) => one(0x40, x),
                Rlc(x) => rr(0x70, x, x),
                Mov(d, s) => two(0x10, d, s),
                LdConstant(x, k) => two(0x10, &Destination::Register(*x), &Source::Constant(k.clone())),
                LdMemAddress(x, m) => two(0x10, &Destination::Register(*x), &Source::MemAddress(m.clone())),
                St(m, x) => two(0x10, &Destination::MemAddress(m.clone()), &Source::Register(*x)),
                Push(x) => one(0x10, x),
                Pop(x) => one(0x14, x),
                PushF => vec![B::Byte(0x18)],
                PopF => vec![B::Byte(0x1C)],
                Ldsp(s) => src_then(0x40, s),
                Ldfr(s) => src_then(0x44, s),
                Jmp(l) => vec![B::Byte(0xFB), B::Label(l.clone()), B::Byte(0x13)],
                Jr(l) => vec![B::Byte(0x20), B::Rel(l.clone(), (addr as u8).wrapping_add(2))],
                Jcs(l) => vec![B::Byte(0x21), B::Rel(l.clone(), (addr as u8).wrapping_add(2))],
                Jzs(l) => vec![B::Byte(0x22), B::Rel(l.clone(), (addr as u8).wrapping_add(2))],
                Jns(l) => vec![B::Byte(0x23), B::Rel(l.clone(), (addr as u8).wrapping_add(2))],
                Jcc(l) => vec![B::Byte(0x25), B::Rel(l.clone(), (addr as u8).wrapping_add(2))],
                Jzc(l) => vec![B::Byte(0x26), B::Rel(l.clone(), (addr as u8).wrapping_add(2))],
                Jnc(l) => vec![B::Byte(0x27), B::Rel(l.clone(), (addr as u8).wrapping_add(2))],
                Call(l) => vec![B::Byte(0x28), B::Label(l.clone())],
                Ret => vec![B::Byte(0x17)],
                RetI => vec![B::Byte(0x2C)],
                Stop => vec![B::Byte(0x01)],
                Nop => vec![B::Byte(0x02)],
                Ei => vec![B::Byte(0x08)],
                Di => vec![B::Byte(0x0C)],
            },
        };
        addr += bytes.len();
        if addr > 0xF0 {
            return Err(Unencodable::TooLarge { bytes: addr });
        }
        out.push(bytes);
    }
    let mut lines = vec![];
    for bs in out {
        let mut v = vec![];
        for b in bs {
            v.push(match b {
                B::Byte(x) => x,
                B::Label(l) => *labels.get(&l.to_lowercase()).ok_or(Unencodable::UndefinedLabel(l))?,
                B::Rel(l, next) => labels.get(&l.to_lowercase()).ok_or(Unencodable::UndefinedLabel(l))?.wrapping_sub(next),
            });
        }
        lines.push(v);
    }
    Ok(Encoded { lines, stacksize, programsize })
}
