//! Hand-written recogniser of the documented mrasm language (statement of
//! C03), independent of the pest grammar in /repo. Three-valued: Accept with
//! the AST, Reject, or Unspecified for spellings the documentation leaves
//! open (the monitor then only requires "no panic").
use emulator_2a_lib::parser::{
    Asm, Constant, Destination, Instruction, Line, MemAddress, Programsize, Register, RegisterDdi, RegisterDi, Source, Stacksize,
};

#[derive(Debug, Clone, PartialEq)]
pub enum Verdict {
    Accept(Asm),
    Reject(String),
    Unspecified(String),
}

#[derive(Debug)]
enum Stop {
    Reject(String),
    Unspec(String),
}

type R<T> = Result<T, Stop>;

fn rej<T>(s: &str) -> R<T> {
    Err(Stop::Reject(s.to_string()))
}
fn unspec<T>(s: &str) -> R<T> {
    Err(Stop::Unspec(s.to_string()))
}

struct P<'a> {
    s: &'a [u8],
    i: usize,
}

fn is_ws(c: u8) -> bool {
    c == b' ' || c == b'\t'
}

impl<'a> P<'a> {
    fn peek(&self) -> Option<u8> {
        self.s.get(self.i).copied()
    }
    fn at_end(&self) -> bool {
        self.i >= self.s.len()
    }
    fn skip_ws(&mut self) -> usize {
        let st = self.i;
        while self.peek().map(is_ws).unwrap_or(false) {
            self.i += 1;
        }
        self.i - st
    }
    fn eat(&mut self, c: u8) -> bool {
        if self.peek() == Some(c) {
            self.i += 1;
            true
        } else {
            false
        }
    }
    fn starts_with_ci(&self, kw: &str) -> bool {
        let k = kw.as_bytes();
        self.s.len() >= self.i + k.len() && self.s[self.i..self.i + k.len()].iter().zip(k.iter()).all(|(a, b)| a.to_ascii_uppercase() == b.to_ascii_uppercase())
    }
    fn zeros(&mut self) -> usize {
        let st = self.i;
        while self.peek() == Some(b'0') {
            self.i += 1;
        }
        self.i - st
    }
    /// decimal 0..=max with leading zeros, PEG style prefix match. Returns value.
    fn dec(&mut self, max: u32) -> Option<u32> {
        let start = self.i;
        self.zeros();
        // longest digit run that is <= max, but emulate the ordered alternatives:
        // they are ordered from most digits to fewest with range checks, first digit 1-9.
        let digits_max = if max == 255 { 3 } else { 5 };
        let rest = &self.s[self.i..];
        let mut run = 0;
        while run < rest.len() && rest[run].is_ascii_digit() && run < digits_max {
            run += 1;
        }
        // try lengths from longest to shortest (alternatives are ordered that way)
        let mut len = run;
        while len >= 1 {
            if rest[0] != b'0' {
                let v: u32 = std::str::from_utf8(&rest[..len]).unwrap().parse().unwrap();
                let ok = if len == digits_max { v <= max } else { true };
                if ok {
                    self.i += len;
                    let all: u32 = std::str::from_utf8(&self.s[start..self.i]).unwrap().trim_start_matches('0').parse().unwrap_or(0);
                    return Some(all);
                }
            }
            len -= 1;
        }
        // second alternative: "0"+
        self.i = start;
        if self.zeros() > 0 {
            Some(0)
        } else {
            self.i = start;
            None
        }
    }
    /// "0x" / "0b" number with at most `max_digits` significant digits.
    fn radix(&mut self, prefix: &[u8; 2], radix: u32, max_digits: usize) -> Option<u32> {
        let start = self.i;
        if self.s.len() < self.i + 2 || &self.s[self.i..self.i + 2] != prefix {
            return None;
        }
        self.i += 2;
        let after_prefix = self.i;
        self.zeros();
        let mut n = 0;
        while n < max_digits && self.peek().map(|c| (c as char).is_digit(radix)).unwrap_or(false) {
            self.i += 1;
            n += 1;
        }
        if n >= 1 {
            let txt = std::str::from_utf8(&self.s[after_prefix..self.i]).unwrap();
            return Some(u32::from_str_radix(txt, radix).unwrap());
        }
        self.i = after_prefix;
        if self.zeros() > 0 {
            return Some(0);
        }
        self.i = start;
        None
    }
    fn upper_prefix_quirk(&self) -> bool {
        self.s.len() >= self.i + 2 && self.s[self.i] == b'0' && (self.s[self.i + 1] == b'X' || self.s[self.i + 1] == b'B')
    }
    /// constant_bin | constant_hex | constant_dec
    fn num8(&mut self) -> R<Option<u8>> {
        if self.upper_prefix_quirk() {
            return unspec("upper-case 0X/0B prefix");
        }
        if let Some(v) = self.radix(b"0b", 2, 8) {
            return Ok(Some(v as u8));
        }
        if let Some(v) = self.radix(b"0x", 16, 2) {
            return Ok(Some(v as u8));
        }
        Ok(self.dec(255).map(|v| v as u8))
    }
    fn num16(&mut self) -> R<Option<u16>> {
        if self.upper_prefix_quirk() {
            return unspec("upper-case 0X/0B prefix");
        }
        if let Some(v) = self.radix(b"0b", 2, 16) {
            return Ok(Some(v as u16));
        }
        if let Some(v) = self.radix(b"0x", 16, 4) {
            return Ok(Some(v as u16));
        }
        Ok(self.dec(65535).map(|v| v as u16))
    }
    /// identifier [A-Za-z_][A-Za-z0-9_]*; None if not at an identifier
    fn ident(&mut self) -> Option<&'a str> {
        let st = self.i;
        match self.peek() {
            Some(c) if c.is_ascii_alphabetic() || c == b'_' => {}
            _ => return None,
        }
        while self.peek().map(|c| c.is_ascii_alphanumeric() || c == b'_').unwrap_or(false) {
            self.i += 1;
        }
        Some(std::str::from_utf8(&self.s[st..self.i]).unwrap())
    }
    /// raw_label with the documented restriction; Unspecified for R/PC/SP prefixes
    fn label(&mut self) -> R<Option<String>> {
        let st = self.i;
        match self.ident() {
            None => Ok(None),
            Some(id) => {
                let u = id.to_ascii_uppercase();
                if u.starts_with('R') || u.starts_with("PC") || u.starts_with("SP") {
                    self.i = st;
                    return unspec("identifier starting with R / PC / SP");
                }
                Ok(Some(id.to_string()))
            }
        }
    }
    fn register(&mut self) -> R<Option<Register>> {
        let st = self.i;
        if let (Some(r), Some(d)) = (self.peek(), self.s.get(self.i + 1)) {
            if (r == b'R' || r == b'r') && (b'0'..=b'3').contains(d) {
                self.i += 2;
                return Ok(Some([Register::R0, Register::R1, Register::R2, Register::R3][(*d - b'0') as usize]));
            }
            if r == b'P' && *d == b'C' {
                self.i += 2;
                return Ok(Some(Register::R3));
            }
            if (r == b'p' || r == b'P') && (*d == b'c' || *d == b'C') {
                self.i = st;
                return unspec("lower-case pc");
            }
        }
        Ok(None)
    }
    fn constant(&mut self) -> R<Option<Constant>> {
        if let Some(v) = self.num8()? {
            return Ok(Some(Constant::Constant(v)));
        }
        Ok(self.label()?.map(Constant::Label))
    }
    fn no_ws_here(&self, what: &str) -> R<()> {
        if self.peek().map(is_ws).unwrap_or(false) {
            return unspec(what);
        }
        Ok(())
    }
    /// "(" register "+" ")"
    fn register_di(&mut self) -> R<Option<Register>> {
        let st = self.i;
        if !self.eat(b'(') {
            return Ok(None);
        }
        self.no_ws_here("blank inside parentheses")?;
        let r = match self.register() {
            Ok(Some(r)) => r,
            Ok(None) => {
                self.i = st;
                return Ok(None);
            }
            Err(e) => {
                self.i = st;
                // "(pc+)" etc.
                return Err(e);
            }
        };
        self.no_ws_here("blank inside parentheses")?;
        if !self.eat(b'+') {
            self.i = st;
            return Ok(None);
        }
        self.no_ws_here("blank inside parentheses")?;
        if !self.eat(b')') {
            self.i = st;
            return Ok(None);
        }
        Ok(Some(r))
    }
    fn register_ddi(&mut self) -> R<Option<Register>> {
        let st = self.i;
        if !self.eat(b'(') {
            return Ok(None);
        }
        self.no_ws_here("blank inside parentheses")?;
        match self.register_di()? {
            Some(r) => {
                self.no_ws_here("blank inside parentheses")?;
                if self.eat(b')') {
                    Ok(Some(r))
                } else {
                    self.i = st;
                    Ok(None)
                }
            }
            None => {
                self.i = st;
                Ok(None)
            }
        }
    }
    /// "(" (constant | register) ")"
    fn memory(&mut self) -> R<Option<MemAddress>> {
        let st = self.i;
        if !self.eat(b'(') {
            return Ok(None);
        }
        self.no_ws_here("blank inside parentheses")?;
        // the grammar tries constant first; a register name can never be a constant/label
        let inner = match self.register()? {
            Some(r) => Some(MemAddress::Register(r)),
            None => self.constant()?.map(MemAddress::Constant),
        };
        let inner = match inner {
            Some(x) => x,
            None => {
                self.i = st;
                return Ok(None);
            }
        };
        self.no_ws_here("blank inside parentheses")?;
        if !self.eat(b')') {
            self.i = st;
            return Ok(None);
        }
        Ok(Some(inner))
    }
    fn source(&mut self) -> R<Option<Source>> {
        if let Some(r) = self.register()? {
            return Ok(Some(Source::Register(r)));
        }
        if let Some(r) = self.register_di()? {
            return Ok(Some(Source::RegisterDi(RegisterDi(r))));
        }
        if let Some(r) = self.register_ddi()? {
            return Ok(Some(Source::RegisterDdi(RegisterDdi(r))));
        }
        if let Some(m) = self.memory()? {
            return Ok(Some(Source::MemAddress(m)));
        }
        Ok(self.constant()?.map(Source::Constant))
    }
    fn destination(&mut self) -> R<Option<Destination>> {
        if let Some(r) = self.register()? {
            return Ok(Some(Destination::Register(r)));
        }
        if let Some(r) = self.register_di()? {
            return Ok(Some(Destination::RegisterDi(RegisterDi(r))));
        }
        if let Some(r) = self.register_ddi()? {
            return Ok(Some(Destination::RegisterDdi(RegisterDdi(r))));
        }
        Ok(self.memory()?.map(Destination::MemAddress))
    }
    /// sep_pp = "," ws*
    fn sep(&mut self) -> R<bool> {
        let st = self.i;
        if self.skip_ws() > 0 && self.peek() == Some(b',') {
            self.i = st;
            return unspec("blank before a comma");
        }
        self.i = st;
        if !self.eat(b',') {
            return Ok(false);
        }
        self.skip_ws();
        Ok(true)
    }
}

const KEYWORDS: &[&str] = &[
    ".ORG", ".BYTE", ".DB", ".DW", ".EQU", "*STACKSIZE", "*PROGRAMSIZE", "CLR", "ADD", "ADC", "SUB", "MUL", "DIV", "INC", "DEC", "NEG", "AND", "OR", "XOR", "COM", "BITS", "BITC", "TST", "CMP",
    "BITT", "LSR", "ASR", "LSL", "RRC", "RLC", "MOV", "LD", "ST", "PUSH", "POP", "PUSHF", "POPF", "LDSP", "LDFR", "JMP", "JCS", "JCC", "JZS", "JZC", "JNS", "JNC", "JR", "CALL", "RETI", "RET",
    "STOP", "NOP", "EI", "DI",
];

fn parse_instruction(p: &mut P) -> R<Option<Instruction>> {
    use Instruction::*;
    // mnemonic: the run of letters (with a leading '.' or '*')
    let st = p.i;
    let mut j = p.i;
    if matches!(p.s.get(j), Some(b'.') | Some(b'*')) {
        j += 1;
    }
    while p.s.get(j).map(|c| c.is_ascii_alphabetic()).unwrap_or(false) {
        j += 1;
    }
    if j == st {
        return Ok(None);
    }
    let word = std::str::from_utf8(&p.s[st..j]).unwrap().to_ascii_uppercase();
    if !KEYWORDS.contains(&word.as_str()) {
        // e.g. "NOPX", "LDX": no alternative of the grammar can match the whole word.
        // A keyword followed directly by more letters is a typo, not an instruction.
        return Ok(None);
    }
    p.i = j;
    let noarg = |i: Instruction| -> R<Option<Instruction>> { Ok(Some(i)) };
    match word.as_str() {
        "PUSHF" => return noarg(PushF),
        "POPF" => return noarg(PopF),
        "RET" => return noarg(Ret),
        "RETI" => return noarg(RetI),
        "STOP" => return noarg(Stop),
        "NOP" => return noarg(Nop),
        "EI" => return noarg(Ei),
        "DI" => return noarg(Di),
        _ => {}
    }
    if p.skip_ws() == 0 {
        return rej("operand separator missing after the mnemonic");
    }
    macro_rules! need {
        ($e:expr, $what:expr) => {
            match $e? {
                Some(x) => x,
                None => return rej($what),
            }
        };
    }
    macro_rules! comma {
        () => {
            if !p.sep()? {
                return rej("',' expected");
            }
        };
    }
    let r1 = |p: &mut P, f: fn(Register) -> Instruction| -> R<Option<Instruction>> {
        match p.register()? {
            Some(r) => Ok(Some(f(r))),
            None => rej("register expected"),
        }
    };
    let r2 = |p: &mut P, f: fn(Register, Register) -> Instruction| -> R<Option<Instruction>> {
        let a = match p.register()? {
            Some(r) => r,
            None => return rej("register expected"),
        };
        if !p.sep()? {
            return rej("',' expected");
        }
        match p.register()? {
            Some(b) => Ok(Some(f(a, b))),
            None => rej("register expected"),
        }
    };
    let ds = |p: &mut P, f: fn(Destination, Source) -> Instruction| -> R<Option<Instruction>> {
        let d = match p.destination()? {
            Some(d) => d,
            None => return rej("destination expected"),
        };
        if !p.sep()? {
            return rej("',' expected");
        }
        match p.source()? {
            Some(s) => Ok(Some(f(d, s))),
            None => rej("source expected"),
        }
    };
    let jump = |p: &mut P, f: fn(String) -> Instruction| -> R<Option<Instruction>> {
        match p.label()? {
            Some(l) => Ok(Some(f(l))),
            None => rej("label expected"),
        }
    };
    match word.as_str() {
        ".ORG" => Ok(Some(AsmOrigin(need!(p.num8(), "number expected")))),
        ".BYTE" => Ok(Some(AsmByte(need!(p.num8(), "number expected")))),
        ".DB" => {
            let mut v = vec![need!(p.num8(), "number expected")];
            loop {
                let save = p.i;
                if !p.sep()? {
                    p.i = save;
                    break;
                }
                v.push(need!(p.num8(), "number expected after ','"));
            }
            Ok(Some(AsmDefineBytes(v)))
        }
        ".DW" => {
            let mut v = vec![need!(p.num16(), "word expected")];
            loop {
                let save = p.i;
                if !p.sep()? {
                    p.i = save;
                    break;
                }
                v.push(need!(p.num16(), "word expected after ','"));
            }
            Ok(Some(AsmDefineWords(v)))
        }
        ".EQU" => {
            let l = need!(p.label(), "label expected");
            if p.skip_ws() == 0 {
                return rej("blank expected after the .EQU name");
            }
            if p.peek() == Some(b'0') && matches!(p.s.get(p.i + 1), Some(b'x') | Some(b'b') | Some(b'X') | Some(b'B')) {
                return unspec(".EQU with a non-decimal value");
            }
            match p.dec(255) {
                Some(v) => Ok(Some(AsmEquals(l, v as u8))),
                None => rej("decimal constant expected"),
            }
        }
        "*STACKSIZE" => {
            let st = p.i;
            while p.peek().map(|c| c.is_ascii_alphanumeric()).unwrap_or(false) {
                p.i += 1;
            }
            let t = std::str::from_utf8(&p.s[st..p.i]).unwrap();
            // ordered alternatives "0" | "16" | "32" | "48" | "64" | NOSET match prefixes
            let (ss, len) = if t.starts_with('0') {
                (Stacksize::_0, 1)
            } else if t.starts_with("16") {
                (Stacksize::_16, 2)
            } else if t.starts_with("32") {
                (Stacksize::_32, 2)
            } else if t.starts_with("48") {
                (Stacksize::_48, 2)
            } else if t.starts_with("64") {
                (Stacksize::_64, 2)
            } else if t.len() >= 5 && t[..5].eq_ignore_ascii_case("NOSET") {
                (Stacksize::NotSet, 5)
            } else {
                return rej("stack size expected");
            };
            p.i = st + len;
            Ok(Some(AsmStacksize(ss)))
        }
        "*PROGRAMSIZE" => {
            if let Some(v) = p.dec(255) {
                return Ok(Some(AsmProgramsize(Programsize::Size(v as u8))));
            }
            if p.starts_with_ci("AUTO") {
                p.i += 4;
                return Ok(Some(AsmProgramsize(Programsize::Auto)));
            }
            if p.starts_with_ci("NOSET") {
                p.i += 5;
                return Ok(Some(AsmProgramsize(Programsize::NotSet)));
            }
            rej("program size expected")
        }
        "CLR" => r1(p, Clr),
        "INC" => r1(p, Inc),
        "NEG" => r1(p, Neg),
        "COM" => r1(p, Com),
        "TST" => r1(p, Tst),
        "LSR" => r1(p, Lsr),
        "ASR" => r1(p, Asr),
        "LSL" => r1(p, Lsl),
        "RRC" => r1(p, Rrc),
        "RLC" => r1(p, Rlc),
        "PUSH" => r1(p, Push),
        "POP" => r1(p, Pop),
        "ADD" => r2(p, Add),
        "ADC" => r2(p, Adc),
        "SUB" => r2(p, Sub),
        "MUL" => r2(p, Mul),
        "DIV" => r2(p, Div),
        "AND" => r2(p, And),
        "OR" => r2(p, Or),
        "XOR" => r2(p, Xor),
        "DEC" => Ok(Some(Dec(need!(p.source(), "source expected")))),
        "LDSP" => Ok(Some(Ldsp(need!(p.source(), "source expected")))),
        "LDFR" => Ok(Some(Ldfr(need!(p.source(), "source expected")))),
        "BITS" => ds(p, Bits),
        "BITC" => ds(p, Bitc),
        "CMP" => ds(p, Cmp),
        "BITT" => ds(p, Bitt),
        "MOV" => ds(p, Mov),
        "LD" => {
            let r = need!(p.register(), "register expected");
            comma!();
            if let Some(c) = p.constant()? {
                return Ok(Some(LdConstant(r, c)));
            }
            match p.memory()? {
                Some(m) => Ok(Some(LdMemAddress(r, m))),
                None => rej("constant or memory operand expected"),
            }
        }
        "ST" => {
            let m = need!(p.memory(), "memory operand expected");
            comma!();
            let r = need!(p.register(), "register expected");
            Ok(Some(St(m, r)))
        }
        "JMP" => jump(p, Jmp),
        "JCS" => jump(p, Jcs),
        "JCC" => jump(p, Jcc),
        "JZS" => jump(p, Jzs),
        "JZC" => jump(p, Jzc),
        "JNS" => jump(p, Jns),
        "JNC" => jump(p, Jnc),
        "JR" => jump(p, Jr),
        "CALL" => jump(p, Call),
        _ => rej("unknown mnemonic"),
    }
}

fn trim_comment(s: &str) -> String {
    s.trim_matches(|c| c == ' ' || c == '\t' || c == ';').to_string()
}

fn comment_is_specified(raw: &str) -> bool {
    // the documented comment is the text without surrounding blanks; what happens to
    // ';' characters at its ends is left open
    let t = raw.trim_matches(|c| c == ' ' || c == '\t');
    !(t.starts_with(';') || t.ends_with(';'))
}

fn parse_line(line: &str) -> R<Line> {
    let bytes = line.as_bytes();
    let mut p = P { s: bytes, i: 0 };
    p.skip_ws();
    let mut result = Line::Empty(None);
    // label?
    let st = p.i;
    let mut have = false;
    {
        // identifier followed by ':'
        let save = p.i;
        if let Some(id) = p.ident() {
            if p.peek() == Some(b':') {
                let u = id.to_ascii_uppercase();
                if u.starts_with('R') || u.starts_with("PC") || u.starts_with("SP") {
                    return unspec("label starting with R / PC / SP");
                }
                p.i += 1;
                result = Line::Label(id.to_string(), None);
                have = true;
            } else {
                p.i = save;
            }
        }
    }
    if !have {
        p.i = st;
        if let Some(i) = parse_instruction(&mut p)? {
            result = Line::Instruction(i, None);
        } else {
            p.i = st;
        }
    }
    p.skip_ws();
    if p.eat(b';') {
        let raw = &line[p.i..];
        if !comment_is_specified(raw) {
            return unspec("comment with ';' at one of its ends");
        }
        let c = Some(trim_comment(raw));
        result = match result {
            Line::Empty(_) => Line::Empty(c),
            Line::Label(l, _) => Line::Label(l, c),
            Line::Instruction(i, _) => Line::Instruction(i, c),
        };
        return Ok(result);
    }
    if !p.at_end() {
        return rej("unexpected text on the line");
    }
    Ok(result)
}

fn refs(i: &Instruction) -> Vec<&String> {
    use Instruction::*;
    fn c(k: &Constant) -> Vec<&String> {
        match k {
            Constant::Label(l) => vec![l],
            _ => vec![],
        }
    }
    fn m(k: &MemAddress) -> Vec<&String> {
        match k {
            MemAddress::Constant(k) => c(k),
            _ => vec![],
        }
    }
    fn s(k: &Source) -> Vec<&String> {
        match k {
            Source::Constant(k) => c(k),
            Source::MemAddress(k) => m(k),
            _ => vec![],
        }
    }
    fn d(k: &Destination) -> Vec<&String> {
        match k {
            Destination::MemAddress(k) => m(k),
            _ => vec![],
        }
    }
    match i {
        Jmp(l) | Jcs(l) | Jcc(l) | Jzs(l) | Jzc(l) | Jns(l) | Jnc(l) | Jr(l) | Call(l) => vec![l],
        LdConstant(_, k) => c(k),
        LdMemAddress(_, k) | St(k, _) => m(k),
        Dec(k) | Ldsp(k) | Ldfr(k) => s(k),
        Bits(a, b) | Bitc(a, b) | Cmp(a, b) | Bitt(a, b) | Mov(a, b) => {
            let mut v = d(a);
            v.extend(s(b));
            v
        }
        _ => vec![],
    }
}

pub fn recognise(text: &str) -> Verdict {
    // the grammar's line terminator is NEWLINE = "\n" | "\r\n" | "\r" (a terminator can occur
    // nowhere else: comments end before it)
    let normalised;
    let text = if text.contains('\r') {
        normalised = text.replace("\r\n", "\n").replace('\r', "\n");
        normalised.as_str()
    } else {
        text
    };
    let rest = match text.strip_prefix("#! mrasm") {
        Some(r) => r,
        None => return Verdict::Reject("first line is not '#! mrasm'".into()),
    };
    let (head_tail, body) = match rest.find('\n') {
        Some(p) => (&rest[..p], Some(&rest[p + 1..])),
        None => (rest, None),
    };
    // header tail: ws? comment?
    let hb = head_tail.as_bytes();
    let mut k = 0;
    while k < hb.len() && is_ws(hb[k]) {
        k += 1;
    }
    let header_comment = if k == hb.len() {
        if k > 1 {
            return Verdict::Unspecified("more than one blank after '#! mrasm'".into());
        }
        None
    } else if hb[k] == b';' {
        if k > 1 {
            return Verdict::Unspecified("more than one blank after '#! mrasm'".into());
        }
        let raw = &head_tail[k + 1..];
        if !comment_is_specified(raw) {
            return Verdict::Unspecified("comment with ';' at one of its ends".into());
        }
        Some(trim_comment(raw))
    } else {
        return Verdict::Reject("text after '#! mrasm'".into());
    };
    let mut lines = vec![];
    let pieces: Vec<&str> = match body {
        Some(b) => b.split('\n').collect(),
        None => vec![""],
    };
    let mut unspecified: Option<String> = None;
    for piece in pieces {
        match parse_line(piece) {
            Ok(l) => lines.push(l),
            Err(Stop::Reject(why)) => {
                if unspecified.is_none() {
                    // a definite error; but an earlier unspecified spelling wins
                    return Verdict::Reject(format!("{} in line {:?}", why, piece));
                }
            }
            Err(Stop::Unspec(why)) => {
                if unspecified.is_none() {
                    unspecified = Some(why);
                }
            }
        }
    }
    if let Some(u) = unspecified {
        return Verdict::Unspecified(u);
    }
    // label rules
    let mut defs: Vec<String> = vec![];
    for l in &lines {
        match l {
            Line::Label(n, _) => defs.push(n.to_lowercase()),
            Line::Instruction(Instruction::AsmEquals(n, _), _) => defs.push(n.to_lowercase()),
            _ => {}
        }
    }
    let mut sorted = defs.clone();
    sorted.sort();
    let dups = sorted.windows(2).any(|w| w[0] == w[1]);
    for l in &lines {
        if let Line::Instruction(i, _) = l {
            for r in refs(i) {
                if !defs.contains(&r.to_lowercase()) {
                    return Verdict::Reject(format!("undefined label {}", r));
                }
            }
        }
    }
    if defs.len() > 40 {
        return Verdict::Reject("more than 40 label definitions".into());
    }
    if dups {
        return Verdict::Unspecified("a label is defined twice".into());
    }
    Verdict::Accept(Asm { comment_after_shebang: header_comment, lines })
}
