//! Reference model of the 16 documented ALU functions (written from the doc
//! comments of `AluSelect` and the statement of C08, not from the code).

/// Returns (result, carry_out, zero_out, negative_out).
pub fn alu(select: u8, a: u8, b: u8, carry_in: bool) -> (u8, bool, bool, bool) {
    let (a16, b16, cin) = (a as u16, b as u16, carry_in as u16);
    let (out16, carry): (u16, bool) = match select & 0xF {
        // ADDH: add, carry-out = carry-in OR overflow
        0b0000 => {
            let s = a16 + b16;
            (s, carry_in || s > 0xFF)
        }
        // A: pass A
        0b0001 => (a16, false),
        // NOR
        0b0010 => ((!(a16 | b16)) & 0xFF, false),
        // ZERO
        0b0011 => (0, false),
        // ADD
        0b0100 => {
            let s = a16 + b16;
            (s, s > 0xFF)
        }
        // ADDS: A + B + 1, carry inverted
        0b0101 => {
            let s = a16 + b16 + 1;
            (s, !(s > 0xFF))
        }
        // ADC: A + B + carry
        0b0110 => {
            let s = a16 + b16 + cin;
            (s, s > 0xFF)
        }
        // ADCS: A + B + !carry, carry inverted
        0b0111 => {
            let s = a16 + b16 + (1 - cin);
            (s, !(s > 0xFF))
        }
        // LSR
        0b1000 => (a16 >> 1, a & 1 == 1),
        // RR: bit 0 rotates into bit 7
        0b1001 => ((a16 >> 1) | ((a16 & 1) << 7), a & 1 == 1),
        // RRC: carry-in rotates into bit 7
        0b1010 => ((a16 >> 1) | (cin << 7), a & 1 == 1),
        // ASR: bit 7 kept
        0b1011 => ((a16 >> 1) | (a16 & 0x80), a & 1 == 1),
        // B, SETC, BH, INVC: pass B; carry cleared, set, held, inverted
        0b1100 => (b16, false),
        0b1101 => (b16, true),
        0b1110 => (b16, carry_in),
        _ => (b16, !carry_in),
    };
    let out = (out16 & 0xFF) as u8;
    (out, carry, out == 0, out & 0x80 != 0)
}

pub const NAMES: [&str; 16] = [
    "ADDH", "A", "NOR", "ZERO", "ADD", "ADDS", "ADC", "ADCS", "LSR", "RR", "RRC", "ASR", "B",
    "SETC", "BH", "INVC",
];
