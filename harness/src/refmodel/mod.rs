pub mod alu;
pub mod asm;
pub mod isa;
