pub mod alu;
pub mod isa;
