pub mod alu;
