pub mod alu;
pub mod asm;
pub mod grammar;
pub mod isa;
