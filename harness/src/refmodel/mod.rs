pub mod alu;
pub mod asm;
pub mod cmd;
pub mod grammar;
pub mod isa;
