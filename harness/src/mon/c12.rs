//! C12 — run/verify report exactly what the stepped machine does, including
//! the exit status of the command-line tool.
use crate::gen::prog::{self, BodyOpts, Builder};
use crate::json::J;
use crate::report::{Meta, Report};
use crate::rng::Rng;
use crate::util::{catch, par_items};
use crate::{obj, Ctx};
use emulator_2a_lib::compiler::Translator;
use emulator_2a_lib::machine::{Machine, MachineConfig, State};
use emulator_2a_lib::parser::AsmParser;
use emulator_2a_lib::runner::{RunExpectationsBuilder, RunnerConfigBuilder};
use std::process::{Command, Stdio};

pub fn meta() -> Meta {
    Meta {
        id: "C12",
        rule: "generated programs (terminating, endless, error-stopping, interrupt-driven; expressed as source text) x cycle budgets {0, 1, 2, around the halting cycle, random below 3000, and for endless programs 65 535 .. 131 873 with schedule positions around 65 536} x interrupt/reset multisets (duplicates, cycle 0, the last cycle, beyond the end, both at the same cycle) x machine configurations; library: RunnerConfig::run() must equal (full Machine equality) the harness's own stepping of the statement's loop and report the number of edges issued; RunExpectations::verify over all 8 expectation subsets x matching/mismatching values (CLI also: expectations of 256 and more, which must never verify); CLI: `2a-emulator run ... [verify ...]` with numbers rendered in all three radices: printed Cycles/State/FE/FF and the exit status must follow from the same stepping; unreadable / invalid files and failing verification must exit non-zero, everything else zero. distinct_nontrivial counts distinct (final state, budget class, #interrupts, #resets, halted-early?) classes",
        exhaustive: false,
        assumptions: vec!["interrupt before reset when both are scheduled for the same cycle (order of the statement)", "the program is translated with the real parser/translator (C02/C03 own those)"],
        floors: vec![("library_runs", 5_000), ("runs_halting_early", 500), ("runs_with_interrupts_taken", 200), ("verify_checks", 40_000), ("cli_runs", 60), ("cli_verify_failures_expected", 10), ("cli_bad_files", 8), ("runs_with_budget_over_16_bits", 50), ("cli_runs_with_budget_over_16_bits", 5), ("cli_expectations_beyond_a_byte", 3)],
    }
}

#[derive(Clone, Debug)]
pub struct Case {
    text: String,
    budget: usize,
    interrupts: Vec<usize>,
    resets: Vec<usize>,
    cfg: [u8; 5],
    flags: [bool; 5],
    volts: [f32; 3],
}

fn config(c: &Case) -> MachineConfig {
    MachineConfig {
        digital_input1: c.cfg[4],
        temp: c.volts[0],
        jumper1: c.flags[0],
        jumper2: c.flags[1],
        analog_input1: c.volts[1],
        analog_input2: c.volts[2],
        universal_input_output1: c.flags[2],
        universal_input_output2: c.flags[3],
        universal_input_output3: c.flags[4],
        input_fc: c.cfg[0],
        input_fd: c.cfg[1],
        input_fe: c.cfg[2],
        input_ff: c.cfg[3],
    }
}

fn image_to_text(image: &[u8], rng: &mut Rng) -> String {
    let mut s = String::from("#! mrasm\n");
    if rng.chance(1, 3) {
        s.push_str(&format!("*STACKSIZE {}\n", rng.pick(&["0", "16", "32", "64"])));
    }
    for chunk in image.chunks(8) {
        s.push_str(" .DB ");
        s.push_str(&chunk.iter().map(|b| format!("0x{:02X}", b)).collect::<Vec<_>>().join(", "));
        s.push('\n');
    }
    s
}

fn gen_program(rng: &mut Rng) -> String {
    let mut b = Builder::new();
    match rng.below(7) {
        5 | 6 => {
            // echo the configuration: board status (jumpers, comparators, UIO pins), the board's
            // input port and the input registers end up in FE/FF
            b.ldsp_imm(0xEF);
            let which = rng.below(3);
            match which {
                0 => {
                    b.ld_abs(0, 0xF1);
                    b.st_abs(0xFF, 0);
                    b.ld_abs(1, 0xF0);
                    b.st_abs(0xFE, 1);
                }
                1 => {
                    b.ld_abs(0, 0xFC);
                    b.ld_abs(1, 0xFD);
                    b.alu(0xD0, 0, 1);
                    b.st_abs(0xFF, 0);
                    b.ld_abs(0, 0xFE);
                    b.ld_abs(1, 0xFF);
                    b.alu(0x80, 0, 1);
                    b.st_abs(0xFE, 0);
                }
                _ => {
                    // comparators against non-zero DAC values
                    b.st_abs_imm(0xF0, 100);
                    b.st_abs_imm(0xF1, 200);
                    b.ld_abs(0, 0xF1);
                    b.st_abs(0xFF, 0);
                    b.ld_abs(1, 0xF3);
                    b.st_abs(0xFE, 1);
                }
            }
            if rng.bool() {
                b.emit(&[0x01]);
            }
            let l = b.label();
            b.place(l);
            b.jr(0, l);
        }
        0 => {
            // interrupt-driven counter on FF
            let main = b.label();
            b.jr(0, main);
            b.unary(0x44, 2);
            b.st_abs(0xFF, 2);
            b.emit(&[0x2C]);
            b.place(main);
            b.ldsp_imm(0xEF);
            b.emit(&[0xFB, 0x01, 0x5F, 0xF9, 0x08]);
            let l = b.label();
            b.place(l);
            b.unary(0x44, 0);
            b.st_abs(0xFE, 0);
            b.jr(0, l);
        }
        1 => {
            // endless loop with outputs and input reads
            b.ldsp_imm(0xEF);
            let l = b.label();
            b.place(l);
            b.ld_abs(0, 0xFC);
            b.ld_abs(1, 0xFD);
            b.alu(0x60, 0, 1);
            b.st_abs(0xFF, 0);
            b.unary(0x44, 2);
            b.st_abs(0xFE, 2);
            b.jr(0, l);
        }
        2 => {
            // error stop after a while: runs into zeros / overflows the stack
            b.ldsp_imm(0xEF);
            let n = 1 + rng.below(20) as u8;
            b.ld_imm(2, n);
            let l = b.label();
            b.place(l);
            b.push(2);
            b.st_abs(0xFF, 2);
            b.unary(0x50, 2);
            b.jr(0b110, l);
            if rng.bool() {
                b.emit(&[0x00]);
            }
        }
        _ => {
            b.ldsp_imm(0xEF);
            let subs: Vec<_> = (0..2).map(|_| b.label()).collect();
            let statements = 4 + rng.usize(12);
            prog::body(&mut b, rng, &BodyOpts { statements, ie_changes: false, outputs: true }, &subs);
            b.st_abs(0xFF, 0);
            b.st_abs(0xFE, 1);
            b.emit(&[0x01]);
            let e = b.label();
            b.place(e);
            b.unary(0x44, 0);
            b.st_abs(0xFF, 0);
            b.jr(0, e);
            for s in &subs {
                b.place(*s);
                prog::subroutine(&mut b, rng);
            }
        }
    }
    let image = b.finish().unwrap_or_else(|| vec![0x01]);
    image_to_text(&image, rng)
}

/// The statement's loop, stepped by the harness itself.
fn reference(c: &Case) -> Option<(Machine, usize)> {
    let asm = AsmParser::parse(&c.text).ok()?;
    let bc = Translator::compile(&asm);
    // "a machine with that program and configuration", put together from the single setters so
    // that the reference does not share the runner's way of applying a MachineConfig
    let mut m = Machine::new_with_program(MachineConfig::default(), bc);
    m.set_input_fc(c.cfg[0]);
    m.set_input_fd(c.cfg[1]);
    m.set_input_fe(c.cfg[2]);
    m.set_input_ff(c.cfg[3]);
    m.set_digital_input1(c.cfg[4]);
    m.set_temp(c.volts[0]);
    m.set_analog_input1(c.volts[1]);
    m.set_analog_input2(c.volts[2]);
    m.set_jumper1(c.flags[0]);
    m.set_jumper2(c.flags[1]);
    m.set_universal_input_output1(c.flags[2]);
    m.set_universal_input_output2(c.flags[3]);
    m.set_universal_input_output3(c.flags[4]);
    let mut i = 0usize;
    while i < c.budget {
        if c.interrupts.contains(&i) {
            m.trigger_key_interrupt();
        }
        if c.resets.contains(&i) {
            m.cpu_reset();
        }
        m.trigger_key_clock();
        i += 1;
        if m.state() != State::Running {
            break;
        }
    }
    Some((m, i))
}

fn halting_cycle(c: &Case) -> Option<usize> {
    let mut c2 = c.clone();
    c2.budget = 5000;
    c2.interrupts.clear();
    c2.resets.clear();
    let (m, n) = reference(&c2)?;
    if m.state() != State::Running {
        Some(n)
    } else {
        None
    }
}

fn gen_case(rng: &mut Rng) -> Case {
    let text = gen_program(rng);
    let mut c = Case {
        text,
        budget: 0,
        interrupts: vec![],
        resets: vec![],
        cfg: [rng.u8(), rng.u8(), rng.u8(), rng.u8(), rng.u8()],
        flags: [rng.bool(), rng.bool(), rng.bool(), rng.bool(), rng.bool()],
        volts: {
            // mostly ordinary voltages; now and then what a user may also type: not a number, infinity, far too much
            let mut v = [rng.below(600) as f32 / 100.0, rng.below(500) as f32 / 100.0, rng.below(300) as f32 / 100.0];
            for x in v.iter_mut() {
                if rng.chance(1, 8) {
                    *x = *rng.pick(&[f32::NAN, f32::INFINITY, 7.5, 1.0e9, 5.0, 2.55, 0.0]);
                }
            }
            v
        },
    };
    let halt = halting_cycle(&c);
    let mut deep_budget = false;
    c.budget = match rng.below(8) {
        0 => 0,
        1 => 1,
        2 => 2,
        3 | 4 => match halt {
            Some(h) => (h + rng.usize(5)).saturating_sub(2),
            None => rng.usize(3000),
        },
        _ => rng.usize(3000),
    };
    // deep budgets around the 16/17-bit boundaries for programs that keep running (a count or a
    // schedule position kept in a narrower integer shows only there)
    if halt.is_none() && rng.chance(1, 96) {
        c.budget = *rng.pick(&[65_535usize, 65_536, 65_537, 70_000, 131_071, 131_073]) + rng.usize(3) * rng.usize(400);
        deep_budget = true;
    }
    let span = c.budget.max(halt.unwrap_or(0)) + 3;
    let budget = c.budget;
    let sched = |rng: &mut Rng, n: usize| -> Vec<usize> {
        (0..n)
            .map(|_| match rng.below(6) {
                0 => 0,
                1 => span - 1,
                2 => span + rng.usize(50),
                3 => budget.saturating_sub(1),
                4 if deep_budget => 65_533 + rng.usize(6),
                _ => rng.usize(span),
            })
            .collect()
    };
    let ni = *rng.pick(&[0usize, 0, 1, 2, 5]);
    let nr = *rng.pick(&[0usize, 0, 0, 1, 3]);
    c.interrupts = sched(rng, ni);
    c.resets = sched(rng, nr);
    if !c.interrupts.is_empty() && rng.chance(1, 3) {
        let d = c.interrupts[0];
        c.interrupts.push(d);
        if rng.bool() {
            c.resets.push(d);
        }
    }
    c
}

fn witness(c: &Case) -> J {
    obj![
        ("text", c.text.clone()),
        ("budget", c.budget),
        ("interrupts", c.interrupts.clone()),
        ("resets", c.resets.clone()),
        ("cfg_fc_fd_fe_ff_di1", c.cfg.to_vec()),
        ("flags_j1_j2_uio1_uio2_uio3", J::Arr(c.flags.iter().map(|b| J::Bool(*b)).collect())),
        ("volts_temp_ai1_ai2_x100", vec![(c.volts[0] * 100.0).round() as i64, (c.volts[1] * 100.0).round() as i64, (c.volts[2] * 100.0).round() as i64]),
        ("volts_temp_ai1_ai2_f32_bits", vec![c.volts[0].to_bits() as i64, c.volts[1].to_bits() as i64, c.volts[2].to_bits() as i64]),
        ("volts_temp_ai1_ai2_text", J::Arr(c.volts.iter().map(|v| J::from(format!("{}", v))).collect())),
    ]
}

fn case_from(w: &J) -> Case {
    let b = |k: &str| w.get(k).and_then(|v| v.bytes()).unwrap_or_default();
    let us = |k: &str| -> Vec<usize> { w.get(k).and_then(|v| v.as_arr()).map(|a| a.iter().filter_map(|x| x.as_u64()).map(|x| x as usize).collect()).unwrap_or_default() };
    let cfg = b("cfg_fc_fd_fe_ff_di1");
    let fl: Vec<bool> = w.get("flags_j1_j2_uio1_uio2_uio3").and_then(|v| v.as_arr()).map(|a| a.iter().map(|x| x.as_bool().unwrap_or(false)).collect()).unwrap_or(vec![false; 5]);
    let vo = us("volts_temp_ai1_ai2_x100");
    Case {
        text: w.get("text").and_then(|t| t.as_str()).unwrap_or("").to_string(),
        budget: w.get("budget").and_then(|v| v.as_u64()).unwrap_or(0) as usize,
        interrupts: us("interrupts"),
        resets: us("resets"),
        cfg: [cfg.get(0).copied().unwrap_or(0), cfg.get(1).copied().unwrap_or(0), cfg.get(2).copied().unwrap_or(0), cfg.get(3).copied().unwrap_or(0), cfg.get(4).copied().unwrap_or(0)],
        flags: [fl[0], fl[1], fl[2], fl[3], fl[4]],
        volts: {
            let bits = us("volts_temp_ai1_ai2_f32_bits");
            if bits.len() == 3 {
                [f32::from_bits(bits[0] as u32), f32::from_bits(bits[1] as u32), f32::from_bits(bits[2] as u32)]
            } else {
                [vo.get(0).copied().unwrap_or(0) as f32 / 100.0, vo.get(1).copied().unwrap_or(0) as f32 / 100.0, vo.get(2).copied().unwrap_or(0) as f32 / 100.0]
            }
        },
    }
}

fn check_library(c: &Case, rep: &mut Report) -> Option<(String, String)> {
    let (exp_m, exp_n) = reference(c)?;
    let cfg = RunnerConfigBuilder::default()
        .with_program(&c.text)
        .with_max_cycles(c.budget)
        .with_machine_config(config(c))
        .with_interrupts(c.interrupts.clone())
        .with_resets(c.resets.clone())
        .build()
        .ok()?;
    let res = match cfg.run() {
        Ok(r) => r,
        Err(e) => return Some(("C12:run-rejects-valid-program".into(), format!("{}", e))),
    };
    rep.inc("library_runs");
    if c.budget >= 65_535 {
        rep.inc("runs_with_budget_over_16_bits");
    }
    if res.emulated_cycles != exp_n {
        return Some(("C12:cycle-count".into(), format!("runner reports {} emulated cycles, stepping the documented loop issues {} edges (budget {})", res.emulated_cycles, exp_n, c.budget)));
    }
    if res.machine != exp_m {
        let what = if res.machine.state() != exp_m.state() {
            format!("state {:?} vs {:?}", res.machine.state(), exp_m.state())
        } else if res.machine.registers() != exp_m.registers() {
            format!("registers {:?} vs {:?}", res.machine.registers().content(), exp_m.registers().content())
        } else if res.machine.bus().output_ff() != exp_m.bus().output_ff() || res.machine.bus().output_fe() != exp_m.bus().output_fe() {
            "output registers".to_string()
        } else {
            "other machine state (bus / sequencer / board)".to_string()
        };
        return Some(("C12:final-machine".into(), format!("machine after run() differs from the stepped machine: {}", what)));
    }
    if exp_n < c.budget {
        rep.inc("runs_halting_early");
    }
    if exp_m.bus().output_ff() != 0 && !c.interrupts.is_empty() && c.text.contains("0x2C") {
        rep.inc("runs_with_interrupts_taken");
    }
    rep.class(&[exp_m.state() as u64, c.budget.min(3) as u64, c.interrupts.len() as u64, c.resets.len() as u64, (exp_n < c.budget) as u64]);
    // verify: all 8 subsets x match / mismatch
    let (st, fe, ff) = (exp_m.state(), exp_m.bus().output_fe(), exp_m.bus().output_ff());
    let other_state = |s: State| match s {
        State::Running => State::Stopped,
        State::Stopped => State::ErrorStopped,
        State::ErrorStopped => State::Running,
    };
    for subset in 0..8u8 {
        for wrong in 0..8u8 {
            if wrong & !subset != 0 {
                continue;
            }
            let mut b = RunExpectationsBuilder::default();
            if subset & 1 != 0 {
                b.expect_state(if wrong & 1 != 0 { other_state(st) } else { st });
            }
            if subset & 2 != 0 {
                b.expect_output_fe(if wrong & 2 != 0 { fe.wrapping_add(1) } else { fe });
            }
            if subset & 4 != 0 {
                b.expect_output_ff(if wrong & 4 != 0 { ff ^ 0x80 } else { ff });
            }
            let e = match b.build() {
                Ok(e) => e,
                Err(_) => continue,
            };
            let ok = e.verify(&res).is_ok();
            rep.inc("verify_checks");
            if ok != (wrong == 0) {
                return Some(("C12:verify".into(), format!("verify() = {} for expectation subset {:03b} with mismatching members {:03b}", if ok { "Ok" } else { "Err" }, subset, wrong)));
            }
        }
    }
    None
}

fn radix(rng: &mut Rng, v: u8) -> String {
    match rng.below(3) {
        0 => format!("{}", v),
        1 => format!("0x{:x}", v),
        _ => format!("0b{:b}", v),
    }
}

fn strip_ansi(s: &str) -> String {
    let mut out = String::new();
    let mut it = s.chars().peekable();
    while let Some(c) = it.next() {
        if c == '\u{1b}' {
            while let Some(n) = it.next() {
                if n.is_ascii_alphabetic() {
                    break;
                }
            }
        } else {
            out.push(c);
        }
    }
    out
}

fn check_cli(ctx: &Ctx, c: &Case, tag: &str, rng: &mut Rng, rep: &mut Report) -> Option<(String, String)> {
    let emu = ctx.emu.as_ref()?;
    let (exp_m, exp_n) = reference(c)?;
    let dir = ctx.work.join("c12");
    let _ = std::fs::create_dir_all(&dir);
    let path = dir.join(format!("p-{}.asm", tag));
    std::fs::write(&path, &c.text).ok()?;
    let mut args: Vec<String> = vec![];
    match rng.below(6) {
        0 => args.push("-v".into()),
        1 => args.push("-vvvv".into()),
        _ => {}
    }
    args.push("run".into());
    let flagnames = ["--j1", "--j2", "--uio1", "--uio2", "--uio3"];
    for (i, f) in flagnames.iter().enumerate() {
        if c.flags[i] {
            args.push(f.to_string());
        }
    }
    for (name, v) in [("--fc", c.cfg[0]), ("--fd", c.cfg[1]), ("--fe", c.cfg[2]), ("--ff", c.cfg[3]), ("--di1", c.cfg[4])].iter() {
        args.push(name.to_string());
        args.push(radix(rng, *v));
    }
    for (name, v) in [("--temp", c.volts[0]), ("--ai1", c.volts[1]), ("--ai2", c.volts[2])].iter() {
        args.push(name.to_string());
        args.push(format!("{}", v));
    }
    for i in &c.interrupts {
        args.push("--interrupt".into());
        args.push(i.to_string());
    }
    for i in &c.resets {
        args.push("--reset".into());
        args.push(i.to_string());
    }
    args.push(path.to_string_lossy().to_string());
    args.push(c.budget.to_string());
    // verification: a random subset, matching or not
    let (st, fe, ff) = (exp_m.state(), exp_m.bus().output_fe(), exp_m.bus().output_ff());
    let subset = rng.below(8) as u8;
    let wrong = if rng.chance(1, 3) { rng.below(8) as u8 & subset } else { 0 };
    let use_verify = rng.chance(2, 3);
    let mut unsatisfiable = false;
    if use_verify {
        args.push("verify".into());
        let sname = |s: State| match s {
            State::Running => "running",
            State::Stopped => "stopped",
            State::ErrorStopped => "error",
        };
        if subset & 1 != 0 {
            let s = if wrong & 1 != 0 {
                match st {
                    State::Running => State::Stopped,
                    State::Stopped => State::ErrorStopped,
                    State::ErrorStopped => State::Running,
                }
            } else {
                st
            };
            args.push("--state".into());
            args.push(sname(s).into());
        }
        if subset & 2 != 0 {
            args.push("--fe".into());
            args.push(radix(rng, if wrong & 2 != 0 { fe.wrapping_add(1) } else { fe }));
        }
        if subset & 4 != 0 {
            args.push("--ff".into());
            args.push(radix(rng, if wrong & 4 != 0 { ff ^ 0x80 } else { ff }));
        }
        // an expectation no byte can equal (the machine's value plus a multiple of 256): the tool may
        // refuse the argument or fail the verification, but it must not succeed
        if subset & 6 != 0 && rng.chance(1, 10) {
            let pos = args.iter().rposition(|a| a == "--fe" || a == "--ff").unwrap();
            let v = (if args[pos] == "--fe" { fe } else { ff }) as u32 + 256 * (1 + rng.below(255) as u32);
            args[pos + 1] = match rng.below(3) {
                0 => format!("{}", v),
                1 => format!("0x{:X}", v),
                _ => format!("0b{:b}", v),
            };
            unsatisfiable = true;
        }
    }
    let out = Command::new(emu).args(&args).env("TMPDIR", &dir).env("NO_COLOR", "1").env("RUST_BACKTRACE", "0").stdin(Stdio::null()).stdout(Stdio::piped()).stderr(Stdio::piped()).output().ok()?;
    let _ = std::fs::remove_file(&path);
    rep.inc("cli_runs");
    let stdout = strip_ansi(&String::from_utf8_lossy(&out.stdout));
    let expect_fail = use_verify && (wrong != 0 || unsatisfiable);
    if expect_fail {
        rep.inc("cli_verify_failures_expected");
    }
    let code = out.status.code();
    let wit_args = args.join(" ");
    if unsatisfiable {
        rep.inc("cli_expectations_beyond_a_byte");
        if code == Some(0) {
            return Some(("C12:cli-exit-status".into(), format!("an expectation of 256 or more cannot equal a register, but the exit status is 0: {}", wit_args)));
        }
        return None;
    }
    if expect_fail && code == Some(0) {
        return Some(("C12:cli-exit-status".into(), format!("verification must fail but the exit status is 0: {}", wit_args)));
    }
    if !expect_fail && code != Some(0) {
        return Some(("C12:cli-exit-status".into(), format!("exit status {:?} although nothing failed: {} | stderr: {}", code, wit_args, String::from_utf8_lossy(&out.stderr).lines().take(3).collect::<Vec<_>>().join(" | "))));
    }
    let field = |prefix: &str| -> Option<String> { stdout.lines().find(|l| l.trim_start().starts_with(prefix)).map(|l| l.trim_start()[prefix.len()..].trim().to_string()) };
    let exp_state = match st {
        State::Running => "Running",
        State::Stopped => "Stopped",
        State::ErrorStopped => "Error",
    };
    let checks = [
        ("Cycles:", format!("{}/{}", exp_n, c.budget)),
        ("State:", exp_state.to_string()),
        ("Output:  FE:", fe.to_string()),
        ("FF:", ff.to_string()),
    ];
    for (p, e) in checks.iter() {
        match field(p) {
            Some(got) if &got == e => {}
            got => return Some(("C12:cli-output".into(), format!("line '{}' prints {:?}, the stepped machine gives {:?}: {}", p, got, e, wit_args))),
        }
    }
    None
}

fn check_cli_bad_files(ctx: &Ctx, rep: &mut Report) -> Option<(String, String)> {
    let emu = ctx.emu.as_ref()?;
    let dir = ctx.work.join("c12");
    let _ = std::fs::create_dir_all(&dir);
    let bad = dir.join("bad.asm");
    std::fs::write(&bad, "#! mrasm\n XYZ R0\n").ok()?;
    let good = dir.join("good.asm");
    std::fs::write(&good, "#! mrasm\n NOP\n STOP\n").ok()?;
    let missing = dir.join("does-not-exist.asm");
    let latin1 = dir.join("latin1.asm");
    std::fs::write(&latin1, b"#! mrasm\n NOP ; gr\xfc\xdfe\n STOP\n").ok()?;
    let adir = dir.join("a-directory.asm");
    let _ = std::fs::create_dir_all(&adir);
    let run = |args: &[&str]| Command::new(emu).args(args).env("TMPDIR", &dir).env("NO_COLOR", "1").stdin(Stdio::null()).stdout(Stdio::piped()).stderr(Stdio::piped()).output().ok().and_then(|o| o.status.code());
    let cases: Vec<(Vec<String>, bool)> = vec![
        (vec!["run".into(), bad.to_string_lossy().into(), "10".into()], false),
        (vec!["run".into(), missing.to_string_lossy().into(), "10".into()], false),
        (vec!["verify".into(), bad.to_string_lossy().into()], false),
        (vec!["verify".into(), missing.to_string_lossy().into()], false),
        (vec!["run".into(), latin1.to_string_lossy().into(), "10".into()], false),
        (vec!["verify".into(), latin1.to_string_lossy().into()], false),
        (vec!["run".into(), adir.to_string_lossy().into(), "10".into()], false),
        (vec!["-vv".into(), "run".into(), good.to_string_lossy().into(), "10".into()], true),
        (vec!["verify".into(), good.to_string_lossy().into()], true),
        (vec!["run".into(), good.to_string_lossy().into(), "10".into()], true),
    ];
    for (args, ok) in cases {
        let a: Vec<&str> = args.iter().map(|s| s.as_str()).collect();
        let code = run(&a);
        rep.inc("cli_bad_files");
        if (code == Some(0)) != ok {
            return Some(("C12:cli-exit-status".into(), format!("`{}` exits with {:?}, expected {}", args.join(" "), code, if ok { "0" } else { "non-zero" })));
        }
    }
    None
}

pub fn run(ctx: &Ctx) -> Report {
    let n = ctx.size(600_000, 12_000_000) as usize;
    let cli_n = ctx.size(300, 4_000) as usize;
    let batches = (n + 49) / 50;
    let cli_every = (n / cli_n.max(1)).max(1);
    par_items(ctx.threads, batches + 1, ctx.seed, move |i, seed, rep| {
        let mut rng = Rng::new(seed);
        if i == 0 {
            rep.evaluations += 1;
            if let Some((sig, what)) = check_cli_bad_files(ctx, rep) {
                rep.violate(&sig, what, obj![("bad_files", true)]);
            }
            return;
        }
        for k in 0..50 {
            let c = gen_case(&mut rng);
            rep.evaluations += 1;
            match catch(|| {
                let mut local = Report::new();
                let v = check_library(&c, &mut local);
                (v, local)
            }) {
                Ok((v, local)) => {
                    rep.merge(local);
                    if let Some((sig, what)) = v {
                        rep.violate(&sig, what, witness(&c));
                    }
                }
                Err(p) => rep.violate(&format!("C12:panic:{}", p.site()), p.msg, witness(&c)),
            }
            if ((i - 1) * 50 + k) % cli_every == 0 {
                if let Some((sig, what)) = check_cli(ctx, &c, &format!("{}-{}", i, k), &mut rng, rep) {
                    let mut w = witness(&c);
                    w.set("cli", J::Bool(true));
                    rep.violate(&sig, what, w);
                }
                if c.budget < 65_535 && rng.chance(1, 3) && halting_cycle(&c).is_none() {
                    let mut d = c.clone();
                    d.budget = *rng.pick(&[65_535usize, 65_536, 65_537, 70_001, 131_072]);
                    if let Some(x) = d.interrupts.first_mut() {
                        *x = 65_534 + rng.usize(4);
                    }
                    rep.inc("cli_runs_with_budget_over_16_bits");
                    if let Some((sig, what)) = check_cli(ctx, &d, &format!("{}-{}d", i, k), &mut rng, rep) {
                        let mut w = witness(&d);
                        w.set("cli", J::Bool(true));
                        rep.violate(&sig, what, w);
                    }
                }
            }
            if i == 1 && k == 0 {
                rep.sample(witness(&c));
            }
        }
    })
}

pub fn replay(ctx: &Ctx, w: &J) -> Report {
    let mut rep = Report::new();
    rep.evaluations = 1;
    if w.get("bad_files").is_some() {
        if let Some((sig, what)) = check_cli_bad_files(ctx, &mut rep) {
            rep.violate(&sig, what, obj![("bad_files", true)]);
        }
        return rep;
    }
    let c = case_from(w);
    if let Some((sig, what)) = check_library(&c, &mut rep) {
        rep.violate(&sig, what, witness(&c));
    }
    if w.get("cli").is_some() {
        let mut rng = Rng::new(7);
        for k in 0..6 {
            if let Some((sig, what)) = check_cli(ctx, &c, &format!("replay{}", k), &mut rng, &mut rep) {
                rep.violate(&sig, what, witness(&c));
            }
        }
    }
    rep
}
