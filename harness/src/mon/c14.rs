//! C14 — MR2DA2 board status always reflects its inputs, DACs and configuration.
//! Per-operation pre/post relations; the pre-state is read from the real board
//! so nothing the statement leaves open has to be modelled.
use crate::json::J;
use crate::report::{Meta, Report};
use crate::rng::Rng;
use crate::util::{catch, par_items};
use crate::{obj, Ctx};
use emulator_2a_lib::machine::{Bus, DAISR, DASR};

pub fn meta() -> Meta {
    Meta {
        id: "C14",
        rule: "seeded random interleavings of bus writes to 0xF0-0xF3 (every byte value) and external setters (adversarial f32 incl. NaN/inf/subnormal/-0.0), every relation of C14 checked after every operation; plus a sweep of f32 bit patterns through the three analog setters for the clamping rule (quick: every 256th pattern and all exponent boundaries; thorough: all 2^32). distinct_nontrivial counts distinct (operation kind, interrupt source, edge direction, pin-direction, raised?) classes observed",
        exhaustive: false,
        assumptions: vec![
            "fan supply voltage V is the DAC1 output (ORG1/100 V), so the documented law gives 255 - ORG1 with a slack of 1 for rounding",
            "UOR/UDR/ICR writes and resets are not 'externally applied' changes and must not raise the interrupt flip-flop",
        ],
        floors: vec![("ops", 100_000), ("clamp_points", 16_000_000), ("int_raised", 100), ("uio_ignored_as_output", 100), ("comp_changes", 1_000), ("nan_inputs", 100)],
    }
}

#[derive(Clone, Debug, PartialEq)]
pub enum Op {
    Write(u8, u8),
    Temp(u32),
    Ai1(u32),
    Ai2(u32),
    J1(bool),
    J2(bool),
    Uio(u8, bool),
    Di1(u8),
    /// Bus::master_reset(): board outputs are reset, comparators are refreshed by the next DAC write / analog change
    MasterReset,
}

fn op_json(op: &Op) -> J {
    match op {
        Op::Write(a, v) => obj![("op", "write"), ("addr", *a), ("value", *v)],
        Op::Temp(b) => obj![("op", "temp"), ("bits", *b), ("as_f32", format!("{:?}", f32::from_bits(*b)))],
        Op::Ai1(b) => obj![("op", "ai1"), ("bits", *b), ("as_f32", format!("{:?}", f32::from_bits(*b)))],
        Op::Ai2(b) => obj![("op", "ai2"), ("bits", *b), ("as_f32", format!("{:?}", f32::from_bits(*b)))],
        Op::J1(v) => obj![("op", "j1"), ("value", *v)],
        Op::J2(v) => obj![("op", "j2"), ("value", *v)],
        Op::Uio(i, v) => obj![("op", "uio"), ("pin", *i), ("value", *v)],
        Op::Di1(v) => obj![("op", "di1"), ("value", *v)],
        Op::MasterReset => obj![("op", "master_reset")],
    }
}

fn ops_from_json(j: &J) -> Vec<Op> {
    let gi = |o: &J, k: &str| o.get(k).and_then(|v| v.as_i64()).unwrap_or(0);
    let gb = |o: &J, k: &str| o.get(k).and_then(|v| v.as_bool()).unwrap_or(false);
    j.as_arr()
        .map(|a| {
            a.iter()
                .map(|o| match o.get("op").and_then(|s| s.as_str()).unwrap_or("") {
                    "write" => Op::Write(gi(o, "addr") as u8, gi(o, "value") as u8),
                    "temp" => Op::Temp(gi(o, "bits") as u32),
                    "ai1" => Op::Ai1(gi(o, "bits") as u32),
                    "ai2" => Op::Ai2(gi(o, "bits") as u32),
                    "j1" => Op::J1(gb(o, "value")),
                    "j2" => Op::J2(gb(o, "value")),
                    "uio" => Op::Uio(gi(o, "pin") as u8 % 3, gb(o, "value")),
                    "master_reset" => Op::MasterReset,
                    _ => Op::Di1(gi(o, "value") as u8),
                })
                .collect()
        })
        .unwrap_or_default()
}

/// The clamping rule of the statement: 0-5 V, non-numbers as 0 V.
fn clamp(v: f32) -> f32 {
    if v.is_nan() {
        0.0
    } else if v < 0.0 {
        0.0
    } else if v > 5.0 {
        5.0
    } else {
        v
    }
}

struct Pre {
    dasr: u8,
    daisr: u8,
    daicr: u8,
    uio_dir: [bool; 3],
    di1: u8,
    temp: f32,
    ai: [f32; 2],
}

fn pre_of(bus: &Bus) -> Pre {
    let b = bus.board();
    Pre {
        dasr: b.dasr().bits(),
        daisr: b.daisr().bits(),
        daicr: b.daicr().bits(),
        uio_dir: *b.uio_dir(),
        di1: *b.digital_input1(),
        temp: *b.temp(),
        ai: *b.analog_inputs(),
    }
}

const UIO_BITS: [u8; 3] = [0x01, 0x02, 0x04];
const COMP1: u8 = 0x08;
const COMP2: u8 = 0x10;
const J1: u8 = 0x40;
const J2: u8 = 0x80;
const FF: u8 = 0x02;
const SRC: u8 = 0x01;

/// Apply one operation and check every relation. Returns a (signature, what) on failure.
fn step(bus: &mut Bus, op: &Op, last_j: &mut [Option<bool>; 2], stale: &mut [bool; 2], rep: &mut Report) -> Option<(String, String)> {
    let pre = pre_of(bus);
    let board_before = bus.board().clone();
    match *op {
        Op::Write(a, v) => bus.write(a, v),
        Op::Temp(b) => bus.board_mut().set_temp(f32::from_bits(b)),
        Op::Ai1(b) => bus.board_mut().set_analog_input1(f32::from_bits(b)),
        Op::Ai2(b) => bus.board_mut().set_analog_input2(f32::from_bits(b)),
        Op::J1(v) => {
            bus.board_mut().set_jumper1(v);
            last_j[0] = Some(v);
        }
        Op::J2(v) => {
            bus.board_mut().set_jumper2(v);
            last_j[1] = Some(v);
        }
        Op::Uio(i, v) => match i {
            0 => bus.board_mut().set_universal_input_output1(v),
            1 => bus.board_mut().set_universal_input_output2(v),
            _ => bus.board_mut().set_universal_input_output3(v),
        },
        Op::Di1(v) => bus.board_mut().set_digital_input1(v),
        Op::MasterReset => {
            bus.master_reset();
            // the DAC registers changed without the comparators being refreshed
            *stale = [true, true];
            rep.inc("master_resets");
        }
    }
    match *op {
        Op::Write(0xF0, _) | Op::Ai1(_) => stale[0] = false,
        Op::Write(0xF1, _) | Op::Ai2(_) | Op::Temp(_) => stale[1] = false,
        _ => {}
    }
    let b = bus.board();
    let dasr = b.dasr().bits();
    let daisr = b.daisr().bits();
    // stored voltages
    let expect_v = |name: &str, stored: f32, bits: Option<u32>, before: f32| -> Option<(String, String)> {
        let exp = match bits {
            Some(bits) => clamp(f32::from_bits(bits)),
            None => before,
        };
        if !(stored == exp) {
            Some((format!("C14:voltage:{}", name), format!("{} stored {:?} expected {:?}", name, stored, exp)))
        } else {
            None
        }
    };
    let (tb, a1b, a2b) = match *op {
        Op::Temp(x) => (Some(x), None, None),
        Op::Ai1(x) => (None, Some(x), None),
        Op::Ai2(x) => (None, None, Some(x)),
        _ => (None, None, None),
    };
    if let Some(r) = expect_v("temp", *b.temp(), tb, pre.temp)
        .or_else(|| expect_v("ai1", b.analog_inputs()[0], a1b, pre.ai[0]))
        .or_else(|| expect_v("ai2", b.analog_inputs()[1], a2b, pre.ai[1]))
    {
        return Some(r);
    }
    if tb.map(|x| f32::from_bits(x).is_nan()).unwrap_or(false)
        || a1b.map(|x| f32::from_bits(x).is_nan()).unwrap_or(false)
        || a2b.map(|x| f32::from_bits(x).is_nan()).unwrap_or(false)
    {
        rep.inc("nan_inputs");
    }
    // DAC voltages
    let org = [*b.digital_output1(), *b.digital_output2()];
    if let Op::Write(a, v) = *op {
        if a == 0xF0 && org[0] != v || a == 0xF1 && org[1] != v {
            return Some(("C14:dac-port".into(), format!("write {:#04x} <- {} not stored in the output port", a, v)));
        }
    }
    for i in 0..2 {
        let exp = org[i] as f32 / 100.0;
        if b.analog_outputs()[i] != exp {
            return Some((format!("C14:dac-voltage:{}", i + 1), format!("AO{} = {:?} but ORG{} = {} (expected {:?})", i + 1, b.analog_outputs()[i], i + 1, org[i], exp)));
        }
    }
    // comparators
    let c1 = b.analog_inputs()[0] > org[0] as f32 / 100.0;
    let in2 = if b.temp() > &b.analog_inputs()[1] { *b.temp() } else { b.analog_inputs()[1] };
    let c2 = in2 > org[1] as f32 / 100.0;
    if !stale[0] && (dasr & COMP1 != 0) != c1 {
        return Some(("C14:comp1".into(), format!("COMP1 bit {} but AI1 {:?} vs DAC1 {:?}", dasr & COMP1 != 0, b.analog_inputs()[0], org[0] as f32 / 100.0)));
    }
    if !stale[1] && (dasr & COMP2 != 0) != c2 {
        return Some(("C14:comp2".into(), format!("COMP2 bit {} but max(AI2,TEMP) {:?} vs DAC2 {:?}", dasr & COMP2 != 0, in2, org[1] as f32 / 100.0)));
    }
    if (dasr ^ pre.dasr) & (COMP1 | COMP2) != 0 {
        rep.inc("comp_changes");
    }
    // jumpers and input port
    if let Some(v) = last_j[0] {
        if (dasr & J1 != 0) != v {
            return Some(("C14:jumper1".into(), "J1 status bit differs from the last applied level".into()));
        }
    }
    if let Some(v) = last_j[1] {
        if (dasr & J2 != 0) != v {
            return Some(("C14:jumper2".into(), "J2 status bit differs from the last applied level".into()));
        }
    }
    let exp_di1 = if let Op::Di1(v) = *op { v } else { pre.di1 };
    if *b.digital_input1() != exp_di1 || bus.read(0xF0) != exp_di1 {
        return Some(("C14:di1".into(), "digital input port differs from the last applied value".into()));
    }
    // UIO pins
    if let Op::Uio(i, v) = *op {
        let bit = UIO_BITS[i as usize];
        if pre.uio_dir[i as usize] {
            rep.inc("uio_ignored_as_output");
            if dasr & bit != pre.dasr & bit {
                return Some(("C14:uio-output-not-ignored".into(), format!("external change of UIO{} configured as output changed the status bit", i + 1)));
            }
        } else {
            rep.inc("uio_visible_as_input");
            if (dasr & bit != 0) != v {
                return Some(("C14:uio-input-not-visible".into(), format!("external change of input UIO{} to {} not visible in the status register", i + 1, v)));
            }
        }
    }
    // interrupt flip-flop and source flag
    let source = pre.daicr & 0x07;
    let falling = pre.daicr & 0x08 != 0;
    let watched_bit: Option<u8> = match source {
        1 => Some(UIO_BITS[0]),
        2 => Some(UIO_BITS[1]),
        3 => Some(UIO_BITS[2]),
        4 => Some(COMP1),
        5 => Some(COMP2),
        6 => Some(J1),
        _ => None,
    };
    // is this operation one of the causes the statement lists for the watched source?
    let cause_applies = match (*op).clone() {
        Op::J1(_) => source == 6,
        Op::Uio(i, _) => source == i + 1 && !pre.uio_dir[i as usize],
        Op::Temp(_) | Op::Ai2(_) => source == 5,
        Op::Ai1(_) => source == 4,
        Op::Write(0xF0, _) => source == 4,
        Op::Write(0xF1, _) => source == 5,
        _ => false,
    };
    let mut should_raise = false;
    if let (true, Some(bit)) = (cause_applies, watched_bit) {
        let before = pre.dasr & bit != 0;
        let after = dasr & bit != 0;
        should_raise = if falling { before && !after } else { !before && after };
    }
    let opkind = match *op {
        Op::Write(a, v) => match a {
            0xF0 => 0,
            0xF1 => 1,
            0xF2 => 2 + (v >> 6) as u64,
            0xF3 => 6,
            _ => 7,
        },
        Op::Temp(_) => 8,
        Op::Ai1(_) => 9,
        Op::Ai2(_) => 10,
        Op::J1(_) => 11,
        Op::J2(_) => 12,
        Op::Uio(i, _) => 13 + i as u64,
        Op::Di1(_) => 16,
        Op::MasterReset => 17,
    };
    rep.class(&[opkind, source as u64, falling as u64, should_raise as u64, pre.uio_dir.iter().fold(0, |a, d| a * 2 + *d as u64)]);
    if should_raise {
        rep.inc("int_raised");
        if daisr & FF == 0 || daisr & SRC == 0 {
            return Some((format!("C14:int-not-raised:source{}", source), format!("source {} made its {} transition but DAISR = {:#04x}", source, if falling { "falling" } else { "rising" }, daisr)));
        }
    } else {
        if daisr & FF != 0 && pre.daisr & FF == 0 || daisr & SRC != 0 && pre.daisr & SRC == 0 {
            return Some((format!("C14:int-raised-without-cause:op{}", opkind), format!("DAISR went {:#04x} -> {:#04x} although the selected source {} made no configured transition through a listed cause", pre.daisr, daisr, source)));
        }
    }
    // explicit clears: a write to 0xF3 deletes the flip-flop, an ICR write deletes flip-flop, pending and requested
    if let Op::Write(a, v) = *op {
        if a == 0xF3 && daisr & FF != 0 {
            return Some(("C14:int-ff-not-deleted".into(), "a write to 0xF3 left the interrupt flip-flop set".into()));
        }
        if a == 0xF2 && v >> 6 == 3 {
            if daisr & 0x0E != 0 {
                return Some(("C14:icr-write-does-not-clear".into(), format!("a write of the interrupt control register left DAISR = {:#04x}", daisr)));
            }
            if b.daicr().bits() != v & 0x3F {
                return Some(("C14:icr-not-stored".into(), format!("interrupt control register {:#04x} after writing {:#04x}", b.daicr().bits(), v)));
            }
        }
        if a == 0xF2 && v >> 6 == 1 && *b != board_before {
            return Some(("C14:selector-01-not-ignored".into(), format!("a write of {:#04x} (selector 01, documented as doing nothing) to 0xF2 changed the board", v)));
        }
        if a == 0xF2 && v >> 6 == 2 && b.uio_dir() != &[v & 1 != 0, v & 2 != 0, v & 4 != 0] {
            return Some(("C14:udr-not-stored".into(), "UIO directions differ from the written direction register".into()));
        }
    }
    // read of the status registers returns them
    if bus.read(0xF1) != dasr || bus.read(0xF3) != daisr {
        return Some(("C14:status-read".into(), "reads of 0xF1/0xF3 differ from the status registers".into()));
    }
    // fan period law
    let period = bus.read(0xF2) as i32;
    let law = 255 - org[0] as i32;
    if (period - law).abs() > 1 {
        return Some(("C14:fan-period".into(), format!("fan period register reads {} but 255 - 255*V/2.55 = {} for V = {:?} V", period, law, org[0] as f32 / 100.0)));
    }
    let _ = (DASR::J1, DAISR::SOURCE);
    None
}

fn gen_op(rng: &mut Rng) -> Op {
    match rng.below(20) {
        0..=2 => Op::Write(0xF0, rng.byte_biased()),
        3..=4 => Op::Write(0xF1, rng.byte_biased()),
        5..=8 => {
            // F2: UOR / nothing / UDR / ICR
            let top = [0x00u8, 0x40, 0x80, 0xC0, 0xC0, 0x80][rng.usize(6)];
            Op::Write(0xF2, top | (rng.u8() & 0x3F))
        }
        9 => Op::Write(0xF3, rng.u8()),
        10 => Op::Temp(rng.f32_adversarial().to_bits()),
        11..=12 => Op::Ai1(rng.f32_adversarial().to_bits()),
        13 => Op::Ai2(rng.f32_adversarial().to_bits()),
        14 => Op::J1(rng.bool()),
        15 => Op::J2(rng.bool()),
        16..=18 => Op::Uio(rng.below(3) as u8, rng.bool()),
        19 if rng.chance(1, 3) => Op::MasterReset,
        _ => Op::Di1(rng.u8()),
    }
}

fn run_ops(ops: &[Op], rep: &mut Report) -> Option<(String, String, usize)> {
    let mut bus = Bus::new();
    let mut last_j = [None, None];
    let mut stale = [false, false];
    for (i, op) in ops.iter().enumerate() {
        let r = catch(|| {
            let mut local = Report::new();
            let r = step(&mut bus, op, &mut last_j, &mut stale, &mut local);
            (r, local)
        });
        match r {
            Ok((r, local)) => {
                rep.merge(local);
                if let Some((sig, what)) = r {
                    return Some((sig, what, i));
                }
            }
            Err(p) => return Some((format!("C14:panic:{}", p.site()), format!("panic: {}", p.msg), i)),
        }
    }
    None
}

fn violate(rep: &mut Report, ops: &[Op], r: (String, String, usize)) {
    let shown: Vec<J> = ops.iter().take(r.2 + 1).map(op_json).collect();
    rep.violate(&r.0, format!("after operation #{} ({:?}): {}", r.2, ops[r.2], r.1), obj![("ops", J::Arr(shown))]);
}

pub fn run(ctx: &Ctx) -> Report {
    let seqs = ctx.size(1_500_000, 40_000_000) as usize;
    let batches = (seqs + 49) / 50;
    // clamp sweep: 4096 chunks of the 2^32 space
    let stride: u64 = if ctx.quick() { 256 } else { 1 };
    par_items(ctx.threads, batches + 4096, ctx.seed, move |i, s, rep| {
        if i < batches {
            let mut rng = Rng::new(s);
            for k in 0..50 {
                let len = 30 + rng.usize(100);
                let mut ops: Vec<Op> = (0..len).map(|_| gen_op(&mut rng)).collect();
                if k == 0 {
                    // directed prefix: guarantees the observation floors
                    let d = directed(i as u64 + k as u64);
                    ops.splice(0..0, d);
                }
                rep.evaluations += 1;
                rep.count("ops", ops.len() as u64);
                if let Some(r) = run_ops(&ops, rep) {
                    violate(rep, &ops, r);
                }
                if i == 0 && k == 1 {
                    rep.sample(obj![("kind", "random interleaving (first 10 operations)"), ("ops", J::Arr(ops.iter().take(10).map(op_json).collect()))]);
                }
            }
        } else {
            let chunk = (i - batches) as u64;
            let lo = chunk << 20;
            let mut bus = Bus::new();
            let mut n = 0u64;
            let mut bits = lo;
            // boundary patterns (both signs of zero, +-1 ulp around 5.0, infinities, NaNs, extremes)
            let mut extra: Vec<u32> = vec![];
            if chunk == 0 {
                for &b in &[0u32, 1, 0x8000_0000, 0x8000_0001, 0x40A0_0000, 0x40A0_0001, 0x409F_FFFF, 0x7F80_0000, 0xFF80_0000,
                    0x7F80_0001, 0x7FC0_0000, 0xFFC0_0000, 0x7FFF_FFFF, 0xFFFF_FFFF, 0x7F7F_FFFF, 0xFF7F_FFFF, 0x0080_0000, 0x007F_FFFF, 0x3F80_0000, 0xC0A0_0000] {
                    extra.push(b);
                }
            }
            while bits < lo + (1 << 20) || !extra.is_empty() {
                let b32 = if bits < lo + (1 << 20) { bits as u32 } else { extra.pop().unwrap() };
                let v = f32::from_bits(b32);
                let exp = clamp(v);
                let r = catch(|| {
                    let brd = bus.board_mut();
                    brd.set_temp(v);
                    brd.set_analog_input1(v);
                    brd.set_analog_input2(v);
                    (*brd.temp(), brd.analog_inputs()[0], brd.analog_inputs()[1])
                });
                match r {
                    Ok((t, a1, a2)) => {
                        if !(t == exp && a1 == exp && a2 == exp) {
                            rep.violate(
                                "C14:clamp",
                                format!("setter({:?} = bits {:#010x}) stored temp {:?} ai1 {:?} ai2 {:?}, expected {:?}", v, b32, t, a1, a2, exp),
                                obj![("ops", J::Arr(vec![op_json(&Op::Temp(b32)), op_json(&Op::Ai1(b32)), op_json(&Op::Ai2(b32))]))],
                            );
                        }
                    }
                    Err(p) => rep.violate(&format!("C14:panic:{}", p.site()), format!("analog setter panicked on bits {:#010x}: {}", b32, p.msg), obj![("ops", J::Arr(vec![op_json(&Op::Temp(b32)), op_json(&Op::Ai1(b32)), op_json(&Op::Ai2(b32))]))]),
                }
                n += 1;
                bits += stride;
            }
            // always include the values around every boundary in this chunk's exponent range
            rep.evaluations += n;
            rep.count("clamp_points", n);
            if chunk % 512 == 0 {
                rep.class(&[99, chunk]);
            }
            if chunk == 1029 {
                rep.sample(obj![("kind", "f32 clamp sweep chunk"), ("from_bits", format!("{:#010x}", lo)), ("stride", stride), ("points", n)]);
            }
        }
    })
}

/// Directed operation prefixes that hit every class named in the floors.
fn directed(k: u64) -> Vec<Op> {
    let nan = f32::NAN.to_bits();
    let mut ops = vec![
        Op::Ai1(nan),
        Op::Temp(f32::INFINITY.to_bits()),
        Op::Ai2((-1.0f32).to_bits()),
        Op::Temp(0),
        // UIO1 as output, then external change must be ignored
        Op::Write(0xF2, 0x80 | 0x01),
        Op::Uio(0, true),
        Op::Uio(0, false),
        Op::Write(0xF2, 0x80),
    ];
    // every source x direction: configure, then make the transition both ways
    let src = (k % 6) as u8 + 1;
    for &falling in &[false, true] {
        let icr = 0xC0 | if falling { 0x08 } else { 0 } | src;
        ops.push(Op::Write(0xF2, icr));
        match src {
            1..=3 => {
                ops.push(Op::Uio(src - 1, true));
                ops.push(Op::Uio(src - 1, false));
                ops.push(Op::Uio(src - 1, true));
            }
            4 => {
                ops.push(Op::Write(0xF0, 100));
                ops.push(Op::Ai1(2.0f32.to_bits()));
                ops.push(Op::Write(0xF0, 250));
                ops.push(Op::Write(0xF0, 10));
                ops.push(Op::Ai1(0.05f32.to_bits()));
            }
            5 => {
                ops.push(Op::Write(0xF1, 100));
                ops.push(Op::Temp(2.0f32.to_bits()));
                ops.push(Op::Write(0xF1, 250));
                ops.push(Op::Ai2(3.0f32.to_bits()));
                ops.push(Op::Temp(0));
                ops.push(Op::Ai2(0));
            }
            _ => {
                ops.push(Op::J1(true));
                ops.push(Op::J1(false));
                ops.push(Op::J1(true));
            }
        }
        ops.push(Op::Write(0xF3, 0));
    }
    ops
}

pub fn replay(_ctx: &Ctx, w: &J) -> Report {
    let mut rep = Report::new();
    let ops = ops_from_json(w.get("ops").unwrap_or(&J::Null));
    rep.evaluations = 1;
    if let Some(r) = run_ops(&ops, &mut rep) {
        violate(&mut rep, &ops, r);
    }
    rep
}
