//! C17 — the interactive session survives any key input; commands have their
//! documented effect. The real Tui is driven headlessly (hook H5) in a child
//! process; this monitor generates key scripts, and checks the reported state
//! after every step against a line-editor model, the documented command
//! grammar and a shadow Machine driven through the library calls of the same
//! name.
use crate::json::J;
use crate::refmodel::cmd::{classify, Class, Effect};
use crate::report::{Meta, Report};
use crate::rng::Rng;
use crate::util::par_items;
use crate::{obj, Ctx};
use emulator_2a_lib::compiler::Translator;
use emulator_2a_lib::machine::{verif, Machine, MachineConfig, StepMode};
use emulator_2a_lib::parser::AsmParser;
use std::process::{Command, Stdio};

pub fn meta() -> Meta {
    Meta {
        id: "C17",
        rule: "key scripts for the real Tui (headless driver): all scripts up to length 3 over a 24-key alphabet (13 824, exhaustive), seeded random scripts up to 200 keys (ASCII, multi-byte and wide characters, Enter, Tab, BackTab, arrows, Home/End, Backspace/Delete, control chords, command lines from the documented grammar, must-reject lines, hostile lines, `load` of fixture files; a tenth of them submit 1-5 lines and then walk the whole history up and down past both ends) at random terminal sizes with resizes, and a sweep of every terminal size 1x1..250x100 with a fixed script set; for terminal widths from 76 (every fourth in the quick tier) lines of exactly the input field's width, one less, one and three more are typed and the cursor is walked over all of them; two lines of more than 1024 characters are edited at both ends; `next N` also with N beyond 65 535; two marathon sessions submit more than 256 and more than 512 lines (each with a comparable effect) and then walk the whole history. After every key: no panic in event handling or drawing, cursor <= text length, text/cursor/history equal to the editor model for plain editing keys, machine dump equal to the shadow machine, notification exactly for rejected lines. distinct_nontrivial counts distinct (key class, command class, size class, notification shown, auto-run, step mode) step classes",
        exhaustive: false,
        assumptions: vec![
            "the terminal backend (crossterm raw mode, real tty) is bypassed; the auto-run timing loop is replaced by 10 cycles per frame",
            "lines consisting of a documented command followed by other text, non-canonical numbers, blanks around a command and `exit` are left open; Tab/BackTab/Up/Down results are only checked for cursor <= length and then adopted",
            "`next N` is generated with N <= 2000; a fuel watchdog firing in the driver is inconclusive, not a violation",
        ],
        floors: vec![("steps_checked", 150_000), ("scripts", 15_000), ("sizes_rendered", 25_000), ("commands_accepted_and_compared", 3_000), ("commands_must_reject", 2_000), ("loads_ok", 100), ("multibyte_keys", 5_000), ("tab_keys", 3_000), ("small_terminal_steps", 5_000), ("history_walk_scripts", 500), ("cursor_walks_over_long_lines", 30), ("lines_beyond_1024_characters", 2), ("sessions_with_more_than_256_submitted_lines", 2)],
    }
}

#[derive(Clone, Debug, PartialEq)]
pub enum Key {
    Char(char),
    Ctrl(char),
    Enter,
    Tab,
    BackTab,
    Backspace,
    Delete,
    Left,
    Right,
    Up,
    Down,
    Home,
    End,
    Esc,
    F1,
    Resize(u16, u16),
}

impl Key {
    fn line(&self) -> String {
        match self {
            Key::Char(c) => format!("K c{:x} 0", *c as u32),
            Key::Ctrl(c) => format!("K c{:x} 1", *c as u32),
            Key::Enter => "K enter 0".into(),
            Key::Tab => "K tab 0".into(),
            Key::BackTab => "K backtab 0".into(),
            Key::Backspace => "K backspace 0".into(),
            Key::Delete => "K delete 0".into(),
            Key::Left => "K left 0".into(),
            Key::Right => "K right 0".into(),
            Key::Up => "K up 0".into(),
            Key::Down => "K down 0".into(),
            Key::Home => "K home 0".into(),
            Key::End => "K end 0".into(),
            Key::Esc => "K esc 0".into(),
            Key::F1 => "K f1 0".into(),
            Key::Resize(w, h) => format!("S {} {}", w, h),
        }
    }
    fn to_json(&self) -> J {
        J::from(format!("{:?}", self))
    }
}

pub struct Script {
    id: String,
    width: u16,
    height: u16,
    keys: Vec<Key>,
}

struct Shadow {
    text: Vec<char>,
    cursor: usize,
    history: Vec<String>,
    notif: bool,
    auto: bool,
    memory_part: bool,
    m: Machine,
    quit: bool,
}

fn unhex(s: &str) -> String {
    let bytes: Vec<u8> = (0..s.len() / 2).filter_map(|i| u8::from_str_radix(&s[2 * i..2 * i + 2], 16).ok()).collect();
    String::from_utf8_lossy(&bytes).to_string()
}

struct Step {
    quit: bool,
    text: String,
    cursor: usize,
    hist: usize,
    notif: Option<String>,
    auto: bool,
    part_memory: bool,
    mode_asm: bool,
    dump: String,
}

fn parse_step(line: &str) -> Option<(String, usize, Step)> {
    let (head, dump) = line.split_once(" dump ")?;
    let t: Vec<&str> = head.split(' ').collect();
    if t.len() < 4 || t[0] != "STEP" {
        return None;
    }
    let mut st = Step { quit: false, text: String::new(), cursor: 0, hist: 0, notif: None, auto: false, part_memory: false, mode_asm: false, dump: dump.to_string() };
    for kv in &t[3..] {
        let (k, v) = kv.split_once('=')?;
        match k {
            "quit" => st.quit = v == "1",
            "text" => st.text = unhex(v),
            "cursor" => st.cursor = v.parse().ok()?,
            "hist" => st.hist = v.parse().ok()?,
            "notif" => {
                st.notif = if v == "0" { None } else { Some(unhex(v.trim_start_matches("1:"))) };
            }
            "auto" => st.auto = v == "1",
            "part" => st.part_memory = v == "memory",
            "mode" => st.mode_asm = v == "asm",
            _ => {}
        }
    }
    Some((t[1].to_string(), t[2].parse().ok()?, st))
}

type V = (String, String);

fn apply_effect(sh: &mut Shadow, e: &Effect, rep: &mut Report) -> Result<(), V> {
    match e {
        Effect::SetInput(r, v) => match r {
            0 => sh.m.set_input_fc(*v),
            1 => sh.m.set_input_fd(*v),
            2 => sh.m.set_input_fe(*v),
            _ => sh.m.set_input_ff(*v),
        },
        Effect::SetIrg(v) => sh.m.set_digital_input1(*v),
        Effect::SetTemp(f) => sh.m.set_temp(*f),
        Effect::SetI1(f) => sh.m.set_analog_input1(*f),
        Effect::SetI2(f) => sh.m.set_analog_input2(*f),
        Effect::SetJ1(b) => sh.m.set_jumper1(*b),
        Effect::SetJ2(b) => sh.m.set_jumper2(*b),
        Effect::SetUio(i, b) => match i {
            0 => sh.m.set_universal_input_output1(*b),
            1 => sh.m.set_universal_input_output2(*b),
            _ => sh.m.set_universal_input_output3(*b),
        },
        Effect::ShowRegister => sh.memory_part = false,
        Effect::ShowMemory => sh.memory_part = true,
        Effect::Next(n) => {
            for _ in 0..*n {
                sh.m.trigger_key_clock();
            }
        }
        Effect::Load(path) => {
            let ok = std::fs::read_to_string(path).ok().and_then(|t| AsmParser::parse(&t).ok());
            match ok {
                Some(asm) => {
                    sh.m.load(Translator::compile(&asm));
                    rep.inc("loads_ok");
                }
                None => {
                    sh.notif = true;
                    rep.inc("loads_failing");
                }
            }
        }
        Effect::Quit => sh.quit = true,
    }
    Ok(())
}

/// What kind of comparison the step allows.
enum Judge {
    Full,
    /// only cursor <= len, then adopt the reported editor state
    AdoptEditor,
    /// unspecified command: stop judging this script
    Stop,
    /// the line may be rejected (notification, nothing changes) or executed with this effect
    Either(Effect),
}

fn model_key(sh: &mut Shadow, k: &Key, rep: &mut Report) -> Result<Judge, V> {
    if sh.notif {
        // any key press only dismisses the notification
        sh.notif = false;
        return Ok(Judge::Full);
    }
    match k {
        Key::Ctrl(c) => {
            match c {
                'c' => sh.quit = true,
                'a' => sh.auto = !sh.auto,
                'w' => {
                    let n = if sh.m.step_mode() == StepMode::Real { StepMode::Assembly } else { StepMode::Real };
                    sh.m.set_step_mode(n);
                }
                'e' => sh.m.trigger_key_interrupt(),
                'r' => sh.m.cpu_reset(),
                'l' => sh.m.trigger_key_continue(),
                _ => {}
            }
            rep.inc("control_chords");
            Ok(Judge::Full)
        }
        Key::Enter => {
            if sh.text.is_empty() {
                sh.m.trigger_key_clock();
                rep.inc("clock_keys");
                return Ok(Judge::Full);
            }
            let line: String = sh.text.iter().collect();
            sh.history.push(line.clone());
            sh.text.clear();
            sh.cursor = 0;
            match classify(&line) {
                Class::MustAccept(e) => {
                    apply_effect(sh, &e, rep)?;
                    rep.inc("commands_accepted_and_compared");
                    rep.class_str(&format!("accept:{:?}", std::mem::discriminant(&e)));
                    Ok(Judge::Full)
                }
                Class::MustReject(why) => {
                    sh.notif = true;
                    rep.inc("commands_must_reject");
                    rep.class_str(&format!("reject:{}", why));
                    Ok(Judge::Full)
                }
                Class::Either(e, why) => {
                    rep.inc("commands_either");
                    rep.class_str(&format!("either:{}", why));
                    Ok(Judge::Either(e))
                }
                Class::Unspecified(why) => {
                    rep.inc("commands_unspecified");
                    rep.class_str(&format!("unspec:{}", why));
                    Ok(Judge::Stop)
                }
            }
        }
        Key::Char(c) => {
            sh.text.insert(sh.cursor, *c);
            sh.cursor += 1;
            if c.len_utf8() > 1 {
                rep.inc("multibyte_keys");
            }
            Ok(Judge::Full)
        }
        Key::Backspace => {
            if sh.cursor > 0 {
                sh.cursor -= 1;
                sh.text.remove(sh.cursor);
            }
            Ok(Judge::Full)
        }
        Key::Delete => {
            if sh.cursor < sh.text.len() {
                sh.text.remove(sh.cursor);
            }
            Ok(Judge::Full)
        }
        Key::Left => {
            sh.cursor = sh.cursor.saturating_sub(1);
            Ok(Judge::Full)
        }
        Key::Right => {
            if sh.cursor < sh.text.len() {
                sh.cursor += 1;
            }
            Ok(Judge::Full)
        }
        Key::Home => {
            sh.cursor = 0;
            Ok(Judge::Full)
        }
        Key::End => {
            sh.cursor = sh.text.len();
            Ok(Judge::Full)
        }
        Key::Tab | Key::BackTab => {
            rep.inc("tab_keys");
            Ok(Judge::AdoptEditor)
        }
        Key::Up | Key::Down => {
            rep.inc("history_keys");
            Ok(Judge::AdoptEditor)
        }
        Key::Esc | Key::F1 => Ok(Judge::Full),
        Key::Resize(..) => Ok(Judge::Full),
    }
}

fn panic_signature(line: &str) -> String {
    // PANIC id step phase=.. size=WxH loc=file:line msg=...
    let phase = line.split(" phase=").nth(1).and_then(|s| s.split(' ').next()).unwrap_or("?");
    let loc = line.split(" loc=").nth(1).and_then(|s| s.split(' ').next()).unwrap_or("?");
    let file = loc.rsplit('/').next().unwrap_or("?").split(':').next().unwrap_or("?");
    let parent = loc.rsplit('/').nth(1).unwrap_or("");
    let msg = line.split(" msg=").nth(1).unwrap_or("");
    // message class: text up to the first ';' / " of `", numbers squashed
    let head = msg.split(';').next().unwrap_or("").split(" of `").next().unwrap_or("");
    let mut m = String::new();
    let mut last_digit = false;
    for c in head.chars().take(60) {
        if c.is_ascii_digit() {
            if !last_digit {
                m.push('#');
            }
            last_digit = true;
        } else {
            last_digit = false;
            m.push(c);
        }
    }
    format!("C17:panic:{}:{}/{}:{}", phase, parent, file, m.trim())
}

/// Run a batch of scripts through the driver and check every step.
fn run_batch(ctx: &Ctx, scripts: &[Script], tag: &str, rep: &mut Report) {
    let emu = match ctx.emu.as_ref() {
        Some(e) => e,
        None => {
            rep.inconclusive("no 2a-emulator binary given (--emu)".into());
            return;
        }
    };
    let dir = ctx.work.join("c17");
    let _ = std::fs::create_dir_all(&dir);
    let path = dir.join(format!("s-{}.script", tag));
    let mut text = String::from("FUEL 6000000\n");
    for s in scripts {
        text.push_str(&format!("SCRIPT {} {} {}\n", s.id, s.width, s.height));
        for k in &s.keys {
            text.push_str(&k.line());
            text.push('\n');
        }
    }
    if std::fs::write(&path, text).is_err() {
        rep.inconclusive("cannot write the script file".into());
        return;
    }
    let out = Command::new(emu).env("VERIF_TUI_SCRIPT", &path).env("TMPDIR", &dir).env("RUST_BACKTRACE", "0").stdin(Stdio::null()).stdout(Stdio::piped()).stderr(Stdio::null()).output();
    let _ = std::fs::remove_file(&path);
    let out = match out {
        Ok(o) => o,
        Err(e) => {
            rep.inconclusive(format!("cannot start the driver: {}", e));
            return;
        }
    };
    let stdout = String::from_utf8_lossy(&out.stdout).to_string();
    if !stdout.lines().any(|l| l == "DONE") {
        rep.inconclusive(format!("driver did not finish (status {:?}); last line: {:?}", out.status.code(), stdout.lines().last().unwrap_or("")));
        return;
    }
    let mut lines = stdout.lines().peekable();
    for s in scripts {
        rep.inc("scripts");
        rep.evaluations += 1;
        let mut sh = Shadow { text: vec![], cursor: 0, history: vec![], notif: false, auto: false, memory_part: false, m: Machine::new(MachineConfig::default()), quit: false };
        let mut step_no = 0usize;
        let mut judging = true;
        let (mut w, mut h) = (s.width, s.height);
        let witness = |upto: usize| obj![("width", s.width), ("height", s.height), ("keys", J::Arr(s.keys.iter().take(upto + 1).map(|k| k.to_json()).collect())), ("key_lines", J::Arr(s.keys.iter().take(upto + 1).map(|k| J::from(k.line())).collect()))];
        for (ki, k) in s.keys.iter().enumerate() {
            if let Key::Resize(nw, nh) = k {
                w = *nw;
                h = *nh;
                continue;
            }
            step_no += 1;
            // the driver's line for this step
            let line = loop {
                match lines.peek() {
                    Some(l) if l.starts_with("DRIVER-ERROR") => {
                        rep.inconclusive(format!("driver error: {}", l));
                        lines.next();
                    }
                    Some(l) => break Some(*l),
                    None => break None,
                }
            };
            let line = match line {
                Some(l) => l,
                None => {
                    rep.inconclusive("driver output ended early".into());
                    return;
                }
            };
            let expect_prefix_step = format!("STEP {} {} ", s.id, step_no);
            let expect_prefix_panic = format!("PANIC {} {} ", s.id, step_no);
            if line.starts_with(&expect_prefix_panic) {
                lines.next();
                if line.contains("clock edge fuel exhausted") {
                    rep.inconclusive(format!("fuel watchdog fired in the driver: {}", line));
                } else {
                    let sig = panic_signature(line);
                    rep.violate(&sig, format!("after key #{} ({:?}) at terminal size {}x{}: {}", ki, k, w, h, line.split(" loc=").nth(1).unwrap_or(line)), witness(ki));
                }
                break;
            }
            if !line.starts_with(&expect_prefix_step) {
                // the script was cut short (quit) or output is out of sync
                if sh.quit {
                    break;
                }
                rep.inconclusive(format!("driver output out of sync: expected step {} of {}, got {:?}", step_no, s.id, &line.chars().take(60).collect::<String>()));
                return;
            }
            lines.next();
            let (_, _, st) = match parse_step(line) {
                Some(x) => x,
                None => {
                    rep.inconclusive("cannot parse a STEP line".into());
                    return;
                }
            };
            rep.inc("steps_checked");
            if w < 76 || h < 28 {
                rep.inc("small_terminal_steps");
            }
            // always: cursor inside the text
            let len = st.text.chars().count();
            if st.cursor > len {
                rep.violate("C17:cursor-outside-text", format!("after key #{} ({:?}) the cursor is at {} but the text has {} characters", ki, k, st.cursor, len), witness(ki));
                break;
            }
            if !judging {
                if st.quit {
                    break;
                }
                continue;
            }
            let had_notif = sh.notif;
            let judge = {
                verif::set_fuel(Some(6_000_000));
                let j = model_key(&mut sh, k, rep);
                verif::set_fuel(None);
                j
            };
            let judge = match judge {
                Ok(j) => j,
                Err((sig, what)) => {
                    rep.violate(&sig, what, witness(ki));
                    break;
                }
            };
            let key_class = match k {
                Key::Char(c) if c.is_ascii() => 0u64,
                Key::Char(_) => 1,
                Key::Ctrl(_) => 2,
                Key::Enter => 3,
                Key::Tab | Key::BackTab => 4,
                Key::Up | Key::Down => 5,
                _ => 6,
            };
            rep.class(&[key_class, (w < 76 || h < 28) as u64, (w > 200) as u64, had_notif as u64, sh.auto as u64, (sh.m.step_mode() == StepMode::Assembly) as u64]);
            let judge = match judge {
                Judge::Either(e) => {
                    if st.notif.is_some() {
                        sh.notif = true;
                    } else {
                        verif::set_fuel(Some(6_000_000));
                        let r = apply_effect(&mut sh, &e, rep);
                        verif::set_fuel(None);
                        if let Err((sig, what)) = r {
                            rep.violate(&sig, what, witness(ki));
                            break;
                        }
                    }
                    Judge::Full
                }
                j => j,
            };
            // auto-run: the session clocks the machine 10 times per frame, after the key was handled
            if sh.auto && !sh.quit {
                verif::set_fuel(Some(6_000_000));
                for _ in 0..10 {
                    sh.m.trigger_key_clock();
                }
                verif::set_fuel(None);
            }
            match judge {
                Judge::Either(_) => {}
                Judge::Stop => {
                    judging = false;
                    if st.quit {
                        break;
                    }
                    continue;
                }
                Judge::AdoptEditor => {
                    sh.text = st.text.chars().collect();
                    sh.cursor = st.cursor;
                }
                Judge::Full => {
                    let mt: String = sh.text.iter().collect();
                    if st.text != mt || st.cursor != sh.cursor {
                        rep.violate("C17:editor-state", format!("after key #{} ({:?}): text {:?} cursor {}, line-editor model says {:?} cursor {}", ki, k, st.text, st.cursor, mt, sh.cursor), witness(ki));
                        break;
                    }
                }
            }
            if st.hist != sh.history.len() {
                rep.violate("C17:history", format!("after key #{} ({:?}): history has {} entries, model says {}", ki, k, st.hist, sh.history.len()), witness(ki));
                break;
            }
            if st.notif.is_some() != sh.notif {
                let sig = if sh.notif { "C17:invalid-line-not-rejected" } else { "C17:valid-line-rejected" };
                let last = sh.history.last().cloned().unwrap_or_default();
                rep.violate(sig, format!("after key #{} ({:?}), submitted line {:?}: notification shown = {}, expected {} ({:?})", ki, k, last, st.notif.is_some(), sh.notif, st.notif), witness(ki));
                break;
            }
            if st.quit != sh.quit {
                rep.violate("C17:quit", format!("after key #{} ({:?}): quit = {}, expected {}", ki, k, st.quit, sh.quit), witness(ki));
                break;
            }
            if st.auto != sh.auto || st.part_memory != sh.memory_part || st.mode_asm != (sh.m.step_mode() == StepMode::Assembly) {
                rep.violate("C17:ui-flags", format!("after key #{} ({:?}): auto-run/part/step-mode = {}/{}/{}, expected {}/{}/{}", ki, k, st.auto, st.part_memory, st.mode_asm, sh.auto, sh.memory_part, sh.m.step_mode() == StepMode::Assembly), witness(ki));
                break;
            }
            let shadow_dump = sh.m.verif_dump();
            if st.dump != shadow_dump {
                let last = sh.history.last().cloned().unwrap_or_default();
                let pos = st.dump.chars().zip(shadow_dump.chars()).position(|(a, b)| a != b).unwrap_or(0);
                let from = pos.saturating_sub(30);
                let a: String = st.dump.chars().skip(from).take(80).collect();
                let b: String = shadow_dump.chars().skip(from).take(80).collect();
                let sig = if matches!(k, Key::Enter) && !last.is_empty() && sh.history.len() == st.hist && !had_notif { "C17:command-effect" } else { "C17:key-effect" };
                rep.violate(sig, format!("after key #{} ({:?}, last line {:?}): machine differs from the shadow driven by the library calls: ...{}... vs ...{}...", ki, k, last, a, b), witness(ki));
                break;
            }
            if st.quit {
                break;
            }
        }
        // skip any remaining lines of this script (after a violation / quit)
        while let Some(l) = lines.peek() {
            if l.starts_with(&format!("STEP {} ", s.id)) || l.starts_with(&format!("PANIC {} ", s.id)) {
                lines.next();
            } else {
                break;
            }
        }
    }
}

const ALPHABET: [Key; 24] = [
    Key::Char('F'),
    Key::Char('C'),
    Key::Char('='),
    Key::Char(' '),
    Key::Char('1'),
    Key::Char('s'),
    Key::Char('l'),
    Key::Char('ä'),
    Key::Char('日'),
    Key::Char('\u{301}'),
    Key::Enter,
    Key::Tab,
    Key::BackTab,
    Key::Backspace,
    Key::Delete,
    Key::Left,
    Key::Right,
    Key::Up,
    Key::Down,
    Key::Home,
    Key::End,
    Key::Ctrl('w'),
    Key::Ctrl('a'),
    Key::Esc,
];

fn type_line(keys: &mut Vec<Key>, s: &str) {
    for c in s.chars() {
        keys.push(Key::Char(c));
    }
    keys.push(Key::Enter);
}

fn fixtures(ctx: &Ctx) -> Vec<String> {
    let dir = ctx.work.join("c17");
    let _ = std::fs::create_dir_all(&dir);
    let progs = [
        ("count.asm", "#! mrasm\n*STACKSIZE 0\nLOOP:\n INC R0\n ST (0xFF), R0\n LD R1, (0xFC)\n ST (0xFE), R1\n JR LOOP\n"),
        ("stop.asm", "#! mrasm ; stops\n LDSP 0xEF\n LD R0, 7\n LD R1, 6\n MUL R0, R1\n ST (0xFF), R0\n STOP\n JR END\nEND:\n JR END\n"),
        ("int.asm", "#! mrasm\n JR MAIN\n INC R2\n ST (0xFF), R2\n RETI\nMAIN:\n LDSP 0xEF\n BITS (0xF9), 0x01\n EI\nL:\n JR L\n"),
        ("undefined-opcode.asm", "#! mrasm\n .DB 0x4C, 0xE0, 0xFF, 0x7F\n"),
        ("bad.asm", "#! mrasm\n XYZ R0\n"),
        // what `verify` accepts must also be loadable and displayable in the session
        ("long-label.asm", "#! mrasm ; long names\nthis_is_a_rather_long_label_name_for_the_main_loop_0123456789:\n INC R0 ; count\n JR THIS_IS_A_RATHER_LONG_LABEL_NAME_FOR_THE_MAIN_LOOP_0123456789\n"),
        ("mixed.asm", "#! mrasm\n*STACKSIZE 32\n*PROGRAMSIZE 200\nStart:\n ld r0, 0x10\n .EQU Cell 3\n DEC (Cell) ; memory form\n dec (R0+)\n st (cell), R0\n mov ((PC+)), (r0)\n jmp START\n .DB 1, 2, 3, 4, 5, 6, 7, 8, 9, 10, 11, 12, 13, 14, 15, 16 ; a wide line with a comment\n .DW 65535, 0x0100\n .BYTE 20\nEnd:\n JR end\n"),
        ("a-program-with-a-really-long-file-name-for-the-info-sidebar.asm", "#! mrasm\nL:\n INC R0\n ST (0xFF), R0\n JR L\n"),
        ("日本語のとても長いファイル名のプログラム.asm", "#! mrasm\n NOP\n STOP\n"),
        ("unicode-comment.asm", "#! mrasm;日本語 ünïcödé 🎉\n NOP ; ä→ß\n; только комментарий\n STOP\n"),
    ];
    let mut v = vec![];
    for (n, t) in progs.iter() {
        let p = dir.join(n);
        let _ = std::fs::write(&p, t);
        v.push(p.to_string_lossy().to_string());
    }
    v.push(dir.join("missing.asm").to_string_lossy().to_string());
    v
}

/// A session that loads a program first and then works with it: clock keys, step-mode and
/// auto-run toggles, interrupts, resets, `next N`, input changes.
fn session_script(rng: &mut Rng, id: String, fix: &[String]) -> Script {
    let mut keys = vec![];
    let loadable: Vec<&String> = fix.iter().filter(|f| !f.ends_with("bad.asm") && !f.ends_with("missing.asm")).collect();
    type_line(&mut keys, &format!("load {}", loadable[rng.usize(loadable.len())]));
    let n = 10 + rng.usize(50);
    for _ in 0..n {
        match rng.below(16) {
            0..=3 => keys.push(Key::Enter),
            4 | 5 => keys.push(Key::Ctrl('w')),
            6 | 7 => keys.push(Key::Ctrl('a')),
            8 => keys.push(Key::Ctrl('e')),
            9 => keys.push(Key::Ctrl(*rng.pick(&['r', 'l']))),
            10 => type_line(&mut keys, &format!("next {}", rng.below(40))),
            11 => {
                if rng.chance(1, 6) {
                    // counts beyond 16 bits
                    type_line(&mut keys, &format!("next {}", 65_530 + rng.below(600)));
                } else {
                    type_line(&mut keys, &format!("next {}", rng.below(40)));
                }
            }
            12 => type_line(&mut keys, &format!("FC = {}", rng.u8())),
            13 => type_line(&mut keys, "show memory"),
            14 => {
                // recall an older line and run it again
                keys.push(Key::Up);
                if rng.bool() {
                    keys.push(Key::Up);
                }
                keys.push(Key::Enter);
            }
            _ => keys.push(Key::Char(*rng.pick(&['x', 'ä', ' ']))),
        }
    }
    Script { id, width: 76 + rng.below(175) as u16, height: 28 + rng.below(73) as u16, keys }
}

/// Submits a few lines and then walks up and down the whole history (every index, both ends),
/// now and then editing or re-submitting a recalled line.
fn history_script(rng: &mut Rng, id: String) -> Script {
    let mut keys = vec![];
    let n = 1 + rng.usize(5);
    for j in 0..n {
        let line = match rng.below(5) {
            0 => format!("FC = {}", j),
            1 => "show register".to_string(),
            2 => format!("nonsense {}", j),
            3 => format!("next {}", j),
            _ => format!("set J{}", 1 + j % 2),
        };
        type_line(&mut keys, &line);
    }
    // to the oldest entry and beyond, back to the newest and beyond
    for _ in 0..(n + 2) {
        keys.push(Key::Up);
    }
    for _ in 0..(n + 2) {
        keys.push(Key::Down);
    }
    for _ in 0..(6 + rng.usize(30)) {
        match rng.below(12) {
            0..=4 => keys.push(Key::Up),
            5..=8 => keys.push(Key::Down),
            9 => keys.push(Key::Enter),
            10 => keys.push(Key::Char('1')),
            _ => keys.push(Key::Backspace),
        }
    }
    Script { id, width: 76 + rng.below(100) as u16, height: 28 + rng.below(40) as u16, keys }
}

fn random_script(rng: &mut Rng, id: String, fix: &[String]) -> Script {
    let (w, h) = match rng.below(10) {
        0 => (1 + rng.below(80) as u16, 1 + rng.below(30) as u16),
        1 => (76, 28),
        2 => (250, 100),
        _ => (76 + rng.below(175) as u16, 28 + rng.below(73) as u16),
    };
    let mut keys = vec![];
    let span = if rng.chance(1, 5) { 195 } else { 40 };
    let n = 5 + rng.usize(span);
    while keys.len() < n {
        match rng.below(24) {
            0..=4 => {
                // a documented command
                let reg = *rng.pick(&["FC", "FD", "FE", "FF", "fc", "Ff"]);
                let v = rng.byte_biased();
                let num = match rng.below(3) {
                    0 => format!("{}", v),
                    1 => format!("0x{:X}", v),
                    _ => format!("0b{:b}", v),
                };
                let line = match rng.below(14) {
                    0 | 1 => format!("{} = {}", reg, num),
                    2 => format!("set {}={}", reg, num),
                    3 => format!("set IRG = {}", num),
                    4 => format!("set {} = {}", rng.pick(&["TEMP", "I1", "I2", "temp"]), rng.pick(&["0", "1.5", "2.55", "4", "7.25", "0.01"])),
                    5 => format!("{} {}", rng.pick(&["set", "unset", "SET", "Unset"]), rng.pick(&["J1", "J2", "UIO1", "UIO2", "uio3"])),
                    6 => format!("show {}", rng.pick(&["memory", "register", "MEMORY"])),
                    7 | 8 => format!("next {}", rng.below(2000)),
                    9 => "next".to_string(),
                    10 | 11 => format!("load {}", rng.pick(fix)),
                    12 => "quit".to_string(),
                    _ => format!("{} = {}", reg, num),
                };
                type_line(&mut keys, &line);
            }
            5 | 6 => {
                // must-reject / hostile lines
                let line = match rng.below(12) {
                    0 => "FC = 256".to_string(),
                    1 => "FD = 0x100".to_string(),
                    2 => "set FE = 0b100000000".to_string(),
                    3 => "bogus".to_string(),
                    4 => "FF =".to_string(),
                    5 => "set IRG = 999".to_string(),
                    6 => "show".to_string(),
                    7 => "load".to_string(),
                    8 => "hällo wörld".to_string(),
                    9 => match rng.below(5) {
                        0 => "FC = 12abc".to_string(),
                        1 => format!("FE = 0B{:b}", rng.u8()),
                        2 => format!("  FF = {}  ", rng.u8()),
                        3 => format!("set IRG = 00{}", rng.u8()),
                        _ => "exit".to_string(),
                    },
                    10 => format!("{} = 0X{:X}", rng.pick(&["FC", "fd"]), rng.u8()),
                    _ => format!("{} {}", rng.pick(&["F", "se", "x", "=", "日本"]), rng.below(400)),
                };
                type_line(&mut keys, &line);
            }
            7..=9 => keys.push(Key::Char(*rng.pick(&['a', 'F', 'C', 'D', 's', 'l', 'o', 'd', ' ', '/', '.', '=', '0', 'x', '1', 'ä', 'ß', '€', '日', '本', '🎉', '\u{301}', '\u{200B}', 'Ω', 'W']))),
            10 => keys.push(Key::Tab),
            11 => keys.push(Key::BackTab),
            12 => keys.push(Key::Backspace),
            13 => keys.push(Key::Delete),
            14 => keys.push(Key::Left),
            15 => keys.push(Key::Right),
            16 => keys.push(Key::Up),
            17 => keys.push(Key::Down),
            18 => keys.push(if rng.bool() { Key::Home } else { Key::End }),
            19 => keys.push(Key::Enter),
            20 => {
                if rng.chance(1, 3) {
                    // file-name completion on unusual prefixes
                    for c in "load ".chars() {
                        keys.push(Key::Char(c));
                    }
                    for _ in 0..rng.usize(4) {
                        keys.push(Key::Char(*rng.pick(&['ä', '日', '/', '.', 't', 'm', 'p', ' ', '~', '\u{301}'])));
                    }
                    keys.push(Key::Tab);
                    keys.push(if rng.bool() { Key::Tab } else { Key::BackTab });
                } else {
                    keys.push(Key::Ctrl(*rng.pick(&['a', 'w', 'e', 'r', 'l', 'w', 'e', 'x'])));
                }
            }
            21 => keys.push(Key::Resize(1 + rng.below(250) as u16, 1 + rng.below(100) as u16)),
            22 => {
                // a long line to exercise the scrolling input widget
                for _ in 0..(60 + rng.usize(120)) {
                    keys.push(Key::Char(*rng.pick(&['a', 'b', ' ', 'ä', '日', '1'])));
                }
                for _ in 0..rng.usize(30) {
                    keys.push(Key::Left);
                }
            }
            _ => keys.push(if rng.bool() { Key::Esc } else { Key::F1 }),
        }
    }
    Script { id, width: w, height: h, keys }
}

pub fn run(ctx: &Ctx) -> Report {
    let random_scripts = ctx.size(8_000, 500_000) as usize;
    let fix = fixtures(ctx);
    // items: 24 exhaustive batches (first key), size-sweep batches (250 widths), random batches
    let rand_batches = (random_scripts + 49) / 50;
    let stride = ctx.size(4, 1);
    let total = 24 + 250 + rand_batches;
    par_items(ctx.threads, total, ctx.seed, |i, seed, rep| {
        let mut rng = Rng::new(seed);
        if i < 24 {
            // all scripts of length <= 3 starting with key i
            let mut scripts = vec![];
            for b in 0..24 {
                for c in 0..24 {
                    scripts.push(Script { id: format!("x{}_{}_{}", i, b, c), width: 100, height: 40, keys: vec![ALPHABET[i].clone(), ALPHABET[b].clone(), ALPHABET[c].clone()] });
                }
            }
            run_batch(ctx, &scripts, &format!("x{}", i), rep);
            if i == 0 {
                rep.sample(obj![("kind", "exhaustive scripts of length 3"), ("alphabet", J::Arr(ALPHABET.iter().map(|k| k.to_json()).collect()))]);
            }
            return;
        }
        if i < 24 + 250 {
            // every height for this width, fixed script set
            let w = (i - 24 + 1) as u16;
            let mut scripts = vec![];
            for h in 1..=100u16 {
                let keys = if h == 30 || h == 100 {
                    // a line longer than the terminal is wide, with multi-byte characters
                    (0..(w as usize + 8).min(140)).map(|n| Key::Char(if n % 5 == 0 { 'ä' } else { 'a' })).collect()
                } else {
                    match h % 3 {
                        0 => vec![Key::Char('s'), Key::Tab, Key::Char('ä')],
                        1 => vec![Key::Char('x'), Key::Enter, Key::Char('日')],
                        _ => vec![Key::Ctrl('w'), Key::Enter, Key::Char('F')],
                    }
                };
                scripts.push(Script { id: format!("z{}x{}", w, h), width: w, height: h, keys });
            }
            rep.count("sizes_rendered", 100);
            // a line a little longer than (and exactly as long as) the input field, and the cursor
            // walked over all of it: every relation between text length, cursor and field width
            if w >= 76 && (w as u64 + ctx.seed) % stride == 0 {
                let field = (w - 37) as usize;
                for (n, len) in [field + 3, field, field + 1, field.saturating_sub(1)].iter().enumerate() {
                    let mut keys: Vec<Key> = (0..*len).map(|k| Key::Char(if k % 7 == 3 { 'ä' } else { 'b' })).collect();
                    for _ in 0..*len {
                        keys.push(Key::Left);
                    }
                    for _ in 0..6 {
                        keys.push(Key::Right);
                    }
                    keys.push(Key::End);
                    keys.push(Key::Home);
                    scripts.push(Script { id: format!("c{}_{}", w, n), width: w, height: 28 + (w % 5), keys });
                }
                rep.inc("cursor_walks_over_long_lines");
            }
            run_batch(ctx, &scripts, &format!("z{}", w), rep);
            return;
        }
        let scripts: Vec<Script> = (0..50)
            .map(|k| {
                if k % 5 == 4 {
                    session_script(&mut rng, format!("r{}_{}", i, k), &fix)
                } else if k % 10 == 3 {
                    rep.inc("history_walk_scripts");
                    history_script(&mut rng, format!("r{}_{}", i, k))
                } else {
                    random_script(&mut rng, format!("r{}_{}", i, k), &fix)
                }
            })
            .collect();
        let mut scripts = scripts;
        if i == 24 + 250 || i == 24 + 250 + 7 {
            // very long lines (beyond 1024 characters), then editing at the end, in the middle and at the start
            let mut keys: Vec<Key> = (0..(1030 + rng.usize(40))).map(|k| Key::Char(if i != 24 + 250 && k % 9 == 0 { '日' } else { 'a' })).collect();
            keys.extend([Key::Backspace, Key::Backspace, Key::Left, Key::Left, Key::Delete, Key::Char('x'), Key::Home, Key::Delete, Key::Char('y'), Key::End, Key::Backspace, Key::Enter]);
            scripts.push(Script { id: format!("long{}", i), width: 120, height: 40, keys });
            rep.inc("lines_beyond_1024_characters");
        }
        if i == 24 + 250 + 3 || i == 24 + 250 + 11 {
            // a marathon session: more than 256 (and, once, more than 512) submitted lines, every one
            // with an effect the model can compare, then a walk through the whole history and back
            let lines = if i == 24 + 250 + 3 { 262 + rng.usize(20) } else { 516 + rng.usize(20) };
            let mut keys = vec![];
            for j in 0..lines {
                let line = match j % 7 {
                    0 => format!("FC = {}", (j * 7 + 1) % 256),
                    1 => format!("FD = 0x{:X}", (j * 5 + 3) % 256),
                    2 => format!("set J{}", 1 + (j / 7) % 2),
                    3 => format!("FE = {}", (j * 3 + 2) % 256),
                    4 => format!("unset J{}", 1 + (j / 7) % 2),
                    5 => format!("FF = 0b{:b}", (j * 11 + 5) % 256),
                    _ => format!("set IRG = {}", (j * 13 + 7) % 256),
                };
                type_line(&mut keys, &line);
            }
            for _ in 0..(lines + 3) {
                keys.push(Key::Up);
            }
            keys.push(Key::Enter);
            for _ in 0..(lines + 5) {
                keys.push(Key::Down);
            }
            type_line(&mut keys, "FC = 77");
            keys.push(Key::Up);
            keys.push(Key::Enter);
            scripts.push(Script { id: format!("marathon{}", i), width: 110, height: 40, keys });
            rep.inc("sessions_with_more_than_256_submitted_lines");
        }
        if i == 24 + 250 {
            rep.sample(obj![("kind", "random script"), ("width", scripts[0].width), ("height", scripts[0].height), ("keys", J::Arr(scripts[0].keys.iter().take(40).map(|k| k.to_json()).collect()))]);
        }
        run_batch(ctx, &scripts, &format!("r{}", i), rep);
    })
}

fn key_from_line(l: &str) -> Option<Key> {
    let t: Vec<&str> = l.split_whitespace().collect();
    match t.as_slice() {
        ["S", w, h] => Some(Key::Resize(w.parse().ok()?, h.parse().ok()?)),
        ["K", k, c] => Some(match *k {
            "enter" => Key::Enter,
            "tab" => Key::Tab,
            "backtab" => Key::BackTab,
            "backspace" => Key::Backspace,
            "delete" => Key::Delete,
            "left" => Key::Left,
            "right" => Key::Right,
            "up" => Key::Up,
            "down" => Key::Down,
            "home" => Key::Home,
            "end" => Key::End,
            "esc" => Key::Esc,
            "f1" => Key::F1,
            x if x.starts_with('c') => {
                let ch = char::from_u32(u32::from_str_radix(&x[1..], 16).ok()?)?;
                if *c == "1" {
                    Key::Ctrl(ch)
                } else {
                    Key::Char(ch)
                }
            }
            _ => return None,
        }),
        _ => None,
    }
}

pub fn replay(ctx: &Ctx, w: &J) -> Report {
    let mut rep = Report::new();
    let _ = fixtures(ctx);
    let keys: Vec<Key> = w.get("key_lines").and_then(|v| v.as_arr()).map(|a| a.iter().filter_map(|x| x.as_str()).filter_map(key_from_line).collect()).unwrap_or_default();
    let s = Script { id: "replay".into(), width: w.get("width").and_then(|v| v.as_u64()).unwrap_or(100) as u16, height: w.get("height").and_then(|v| v.as_u64()).unwrap_or(40) as u16, keys };
    run_batch(ctx, &[s], "replay", &mut rep);
    rep
}
