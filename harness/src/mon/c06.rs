//! C06 — every program the parser accepts can be compiled and loaded without
//! a crash. Oracle: no panic in Translator::compile / Machine::load (in
//! process), and at process level: `verify` says valid => `run` must not die.
use crate::gen::asmtext::{self, Opts};
use crate::json::J;
use crate::refmodel::asm::{encode, Unencodable};
use crate::report::{Meta, Report};
use crate::rng::Rng;
use crate::util::{catch, par_items, Panic};
use crate::{obj, Ctx};
use emulator_2a_lib::compiler::Translator;
use emulator_2a_lib::machine::{Machine, MachineConfig};
use emulator_2a_lib::parser::{Asm, AsmParser, Instruction, Line};
use std::process::{Command, Stdio};

pub fn meta() -> Meta {
    Meta {
        id: "C06",
        rule: "seeded programs from the grammar generator WITHOUT layout restrictions (labels referenced in any letter case, DEC with every operand shape, .ORG to any address relative to the current one, images from 0 to beyond 256 bytes built from .BYTE/.DB/.DW/.ORG mixes, 0-40 labels, header-only files); every program the real parser accepts is compiled and loaded (Machine::load and Machine::new_with_program) under catch_unwind; a sample is written to disk and pushed through the real binary: `2a-emulator verify` exit 0 must imply that `2a-emulator run <file> 0` does not die from a panic. Loading is also exercised with a history: every well-formed program is loaded into a machine that has already held the previous well-formed programs of its batch (large images, every stack-size and program-size directive before it), and samples are loaded one after the other through the `load` command of the real interactive session (headless driver, real Tui::load_program incl. the program pane), where a PANIC line is the violation. distinct_nontrivial counts distinct (layout class, image-size bucket, uses mixed-case refs, uses DEC memory forms) classes of accepted programs",
        exhaustive: false,
        assumptions: vec!["panics are classified by the layout class of the program (well-formed / backward .ORG / image larger than the RAM, decided by the harness's own layout rules) and the panic site, so a known finding never hides a crash on a well-formed program"],
        floors: vec![("accepted_programs", 20_000), ("compiled_and_loaded", 10_000), ("programs_with_backward_org", 500), ("programs_larger_than_ram", 500), ("programs_with_mixed_case_refs", 1_000), ("programs_with_dec_memory", 1_000), ("cli_pairs", 40), ("texts_with_undefined_label", 5_000), ("texts_with_duplicate_definitions", 5_000), ("reloads_into_used_machine", 5_000), ("texts_with_hundreds_of_instruction_lines", 1_000), ("accepted_with_more_than_255_instruction_lines", 500), ("reloads_after_image_above_224", 100), ("tui_loads", 100), ("tui_loads_with_org_above_127", 10)],
    }
}

fn layout_class(asm: &Asm) -> (&'static str, usize) {
    match encode(asm) {
        Ok(e) => ("well-formed", e.lines.iter().map(|l| l.len()).sum()),
        Err(Unencodable::BackwardOrg { .. }) => ("backward-org", 0),
        Err(Unencodable::TooLarge { bytes }) => ("image-larger-than-ram", bytes),
        Err(Unencodable::UndefinedLabel(_)) => ("undefined-label", 0),
    }
}

/// A machine that keeps the programs loaded before (the history of a session).
pub struct Used {
    m: Option<Machine>,
    pub history: Vec<String>,
    last_size: usize,
}

impl Used {
    pub fn new() -> Self {
        Used { m: None, history: vec![], last_size: 0 }
    }
}

fn check_inprocess(asm: &Asm, text: &str, used: &mut Used, rep: &mut Report) -> Option<(String, String)> {
    let (class, size) = layout_class(asm);
    match class {
        "backward-org" => rep.inc("programs_with_backward_org"),
        "image-larger-than-ram" => rep.inc("programs_larger_than_ram"),
        _ => {}
    }
    let dec_mem = asm.lines.iter().any(|l| matches!(l, Line::Instruction(Instruction::Dec(s), _) if !matches!(s, emulator_2a_lib::parser::Source::Register(_))));
    if dec_mem {
        rep.inc("programs_with_dec_memory");
    }
    let bc = match catch(|| Translator::compile(asm)) {
        Ok(b) => b,
        Err(p) => return Some((format!("C06:{}:panic:{}", class, p.site()), format!("Translator::compile panicked: {} ({}:{})", p.msg, p.file, p.line))),
    };
    let bc2 = bc.clone();
    if let Err(p) = catch(|| {
        let mut m = Machine::new(MachineConfig::default());
        m.load(bc);
        m.trigger_key_clock();
        m
    }) {
        return Some((format!("C06:{}:panic:{}", class, p.site()), format!("Machine::load panicked: {} ({}:{})", p.msg, p.file, p.line)));
    }
    // loading a program in the interactive session also renders the listing of the byte code
    let bc3 = bc2.clone();
    if let Err(p) = catch(|| {
        let mut n = format!("{}", bc3).len();
        for (l, _) in &bc3.lines {
            n += format!("{}", l).len();
        }
        n
    }) {
        return Some((format!("C06:{}:panic:{}", class, p.site()), format!("rendering the byte-code listing panicked: {} ({}:{})", p.msg, p.file, p.line)));
    }
    if let Err(p) = catch(|| Machine::new_with_program(MachineConfig::default(), bc2)) {
        return Some((format!("C06:{}:panic:{}", class, p.site()), format!("Machine::new_with_program panicked: {} ({}:{})", p.msg, p.file, p.line)));
    }
    if class == "well-formed" {
        // the same load, but into a machine with a past
        let bc4 = match catch(|| Translator::compile(asm)) {
            Ok(b) => b,
            Err(_) => return None,
        };
        let mut m = used.m.take().unwrap_or_else(|| Machine::new(MachineConfig::default()));
        used.history.push(text.to_string());
        if used.history.len() > 3 {
            used.history.remove(0);
        }
        match catch(move || {
            m.load(bc4);
            m.trigger_key_clock();
            m
        }) {
            Ok(m) => {
                used.m = Some(m);
                if used.history.len() > 1 {
                    rep.inc("reloads_into_used_machine");
                    if used.last_size > 224 {
                        rep.inc("reloads_after_image_above_224");
                    }
                }
                used.last_size = size;
            }
            Err(p) => {
                let r = Some((format!("C06:{}:reload-panic:{}", class, p.site()), format!("Machine::load into a machine that had loaded {} program(s) before panicked: {} ({}:{})", used.history.len() - 1, p.msg, p.file, p.line)));
                return r;
            }
        }
    }
    rep.inc("compiled_and_loaded");
    rep.class(&[match class {
        "well-formed" => 0,
        "backward-org" => 1,
        _ => 2,
    }, (size / 32) as u64, dec_mem as u64]);
    None
}

fn hostile_opts(rng: &mut Rng) -> Opts {
    let mut o = Opts::parser();
    o.max_lines = match rng.below(4) {
        0 => 6,
        1 => 120,
        _ => 40,
    };
    o
}

fn cli_pair(ctx: &Ctx, text: &str, tag: &str, rep: &mut Report) -> Option<(String, String)> {
    let emu = ctx.emu.as_ref()?;
    let dir = ctx.work.join("c06");
    let _ = std::fs::create_dir_all(&dir);
    let path = dir.join(format!("p-{}.asm", tag));
    if std::fs::write(&path, text).is_err() {
        return None;
    }
    let run = |args: &[&str]| {
        Command::new(emu).args(args).env("TMPDIR", &dir).env("NO_COLOR", "1").env("RUST_BACKTRACE", "0").stdin(Stdio::null()).stdout(Stdio::piped()).stderr(Stdio::piped()).output()
    };
    let p = path.to_string_lossy().to_string();
    let v = run(&["verify", &p]).ok()?;
    rep.inc("cli_pairs");
    let res = if v.status.code() == Some(0) {
        rep.inc("cli_verify_accepted");
        let r = run(&["run", &p, "0"]).ok()?;
        match r.status.code() {
            Some(0) | Some(1) => None,
            code => {
                let asm = AsmParser::parse(text).ok();
                let class = asm.as_ref().map(|a| layout_class(a).0).unwrap_or("?");
                let err = String::from_utf8_lossy(&r.stderr);
                let site = err.lines().find(|l| l.contains("panicked at")).unwrap_or("").to_string();
                Some((format!("C06:{}:cli-run-dies", class), format!("`verify` reports the file valid but `run <file> 0` ends with status {:?}: {}", code, site)))
            }
        }
    } else {
        None
    };
    let _ = std::fs::remove_file(&path);
    res
}

/// Loads the given (well-formed, accepted) programs one after the other through the `load`
/// command of the real interactive session. Returns (signature, what, number of programs up to
/// and including the failing one).
fn tui_loads(ctx: &Ctx, texts: &[String], tag: &str, rep: &mut Report) -> Option<(String, String, usize)> {
    let emu = ctx.emu.as_ref()?;
    let dir = ctx.work.join("c06").join(format!("tui-{}", tag));
    let _ = std::fs::create_dir_all(&dir);
    let mut script = String::from("SCRIPT s 100 40\nFUEL 400000\n");
    let mut enters = vec![];
    let mut step = 0usize;
    for (j, t) in texts.iter().enumerate() {
        let name = format!("a{}.asm", j);
        if std::fs::write(dir.join(&name), t).is_err() {
            return None;
        }
        for c in format!("load {}", name).chars() {
            script.push_str(&format!("K c{:x} 0\n", c as u32));
            step += 1;
        }
        script.push_str("K enter 0\n");
        step += 1;
        enters.push(step);
    }
    let sp = dir.join("script.txt");
    if std::fs::write(&sp, script).is_err() {
        return None;
    }
    let out = Command::new(emu).current_dir(&dir).env("VERIF_TUI_SCRIPT", &sp).env("TMPDIR", &dir).env("RUST_BACKTRACE", "0").stdin(Stdio::null()).stdout(Stdio::piped()).stderr(Stdio::null()).output();
    let _ = std::fs::remove_dir_all(&dir);
    let out = match out {
        Ok(o) => o,
        Err(e) => {
            rep.inconclusive(format!("cannot start the session driver: {}", e));
            return None;
        }
    };
    let stdout = String::from_utf8_lossy(&out.stdout).to_string();
    if !stdout.lines().any(|l| l == "DONE") {
        rep.inconclusive(format!("session driver did not finish (status {:?})", out.status.code()));
        return None;
    }
    let panic_line = stdout.lines().find(|l| l.starts_with("PANIC "));
    let failed_step = panic_line.and_then(|l| l.split(' ').nth(2)).and_then(|n| n.parse::<usize>().ok());
    let org_above = |t: &String| {
        AsmParser::parse(t).map(|a| a.lines.iter().any(|l| matches!(l, Line::Instruction(Instruction::AsmOrigin(n), _) if *n > 127))).unwrap_or(false)
    };
    for (j, t) in texts.iter().enumerate() {
        if failed_step.map(|f| enters[j] < f).unwrap_or(true) {
            rep.inc("tui_loads");
            if org_above(t) {
                rep.inc("tui_loads_with_org_above_127");
            }
        }
    }
    let line = panic_line?;
    if line.contains("clock edge fuel exhausted") {
        rep.inconclusive(format!("fuel watchdog fired in the session driver: {}", line));
        return None;
    }
    let f = failed_step.unwrap_or(0);
    let j = enters.iter().position(|e| *e >= f).unwrap_or(texts.len() - 1);
    let loc = line.split(" loc=").nth(1).and_then(|s| s.split(' ').next()).unwrap_or("?:0");
    let p = Panic { file: loc.rsplitn(2, ':').nth(1).unwrap_or("?").to_string(), line: 0, msg: line.split(" msg=").nth(1).unwrap_or("").to_string() };
    let phase = line.split(" phase=").nth(1).and_then(|s| s.split(' ').next()).unwrap_or("?");
    let sig = if enters.contains(&f) { format!("C06:well-formed:tui-load-panic:{}", p.site()) } else { format!("C06:well-formed:tui-panic-after-load:{}", p.site()) };
    Some((sig, format!("interactive session, program #{} of the session ({} loaded before), phase {}: {}", j, j, phase, line.split(" loc=").nth(1).unwrap_or(line)), j + 1))
}

pub fn run(ctx: &Ctx) -> Report {
    let n = ctx.size(800_000, 6_000_000) as usize;
    let cli_n = ctx.size(300, 3_000) as usize;
    let batches = (n + 199) / 200;
    let cli_every = (n / cli_n.max(1)).max(1);
    let tui_every = (batches / (ctx.size(60, 600) as usize).max(1)).max(1);
    par_items(ctx.threads, batches, ctx.seed, move |i, seed, rep| {
        let mut rng = Rng::new(seed);
        let mut used = Used::new();
        let mut for_tui: Vec<String> = vec![];
        for k in 0..200 {
            let opts = hostile_opts(&mut rng);
            let mut g = asmtext::program(&mut rng, &opts);
            // directed ingredients: large data blocks / backward origins, so that every class is met
            match (i * 200 + k) % 16 {
                0 => g.text.push_str(&format!("\n .BYTE 200\n .DB 1,2,3\n .BYTE {}\n", rng.below(120))),
                1 => g.text.push_str(&format!("\n .ORG 40\n NOP\n .ORG {}\n", rng.below(40))),
                2 => g.text.push_str("\n .ORG 0xEF\n NOP\n NOP\n NOP\n"),
                3 => g.text.push_str("\n .ORG 255\n .DW 1, 2\n"),
                // forward origins into the upper half and images that nearly fill the RAM (well-formed
                // whenever the generated part is shorter)
                8 => g.text.push_str(&format!("\n .ORG {}\n .DB 7\n", 128 + rng.below(100))),
                9 => g.text.push_str(&format!("\n .ORG {}\n NOP\n", 225 + rng.below(14))),
                12 if k % 5 == 2 => {
                    // far more than 255 instruction lines in an image that still fits: most of the
                    // lines are directives without bytes
                    let mut t = String::from("#! mrasm\n");
                    let lines = 250 + rng.usize(400);
                    let mut bytes = 0usize;
                    for _ in 0..lines {
                        if bytes < 200 && rng.chance(1, 3) {
                            t.push_str(*rng.pick(&[" NOP\n", " INC R0\n", " EI\n", " RET\n"]));
                            bytes += 1;
                        } else {
                            t.push_str(*rng.pick(&["*STACKSIZE 16\n", "*STACKSIZE 48\n", "*PROGRAMSIZE AUTO\n", " .BYTE 0\n", "*STACKSIZE 0\n", "*PROGRAMSIZE 200\n"]));
                        }
                    }
                    g.text = t;
                    rep.inc("texts_with_hundreds_of_instruction_lines");
                }
                10 => g.text.push_str(&format!("\n*STACKSIZE {}\n", ["0", "16", "32", "48", "64", "NOSET"][rng.usize(6)])),
                11 => g.text.push_str(&format!("\n*PROGRAMSIZE {}\n", if rng.chance(1, 2) { 241 + rng.below(15) } else { rng.below(256) })),
                6 | 7 => {
                    // the same name defined twice (parser does not forbid it): label/label in another
                    // case, label/.EQU, .EQU/.EQU
                    let n = format!("dup_{}", rng.below(50));
                    let a = match rng.below(3) {
                        0 => format!("{}:", n),
                        1 => format!("{}:", n.to_uppercase()),
                        _ => format!(".EQU {} {}", n, rng.u8()),
                    };
                    let b = match rng.below(3) {
                        0 => format!("{}:", n),
                        1 => format!("{}:", n.to_uppercase()),
                        _ => format!(".EQU {} {}", n.to_uppercase(), rng.u8()),
                    };
                    g.text.push_str(&format!("\n{}\n NOP\n{}\n JR {}\n", a, b, n));
                    rep.inc("texts_with_duplicate_definitions");
                }
                4 | 5 => {
                    // a reference to a label that is defined nowhere, in every operand position that
                    // can hold one: a correct parser rejects the text (then nothing is claimed), but if
                    // it is accepted the later stages still must not crash
                    const FORMS: [&str; 24] = [
                        "JMP @", "JCS @", "JCC @", "JZS @", "JZC @", "JNS @", "JNC @", "JR @", "CALL @", "LD R0, @", "LD R1, (@)", "ST (@), R2", "DEC @", "DEC (@)", "LDSP @", "LDSP (@)",
                        "LDFR @", "LDFR (@)", "MOV R0, @", "MOV (@), R0", "CMP (R0+), @", "BITT (@), (@)", "BITS R1, (@)", "BITC ((R2+)), @",
                    ];
                    let f = FORMS[rng.usize(FORMS.len())].replace('@', "nowhere_x9");
                    g.text.push_str(&format!("\n {}\n", f));
                    rep.inc("texts_with_undefined_label");
                }
                _ => {}
            }
            rep.evaluations += 1;
            let asm = match catch(|| AsmParser::parse(&g.text)) {
                Ok(Ok(a)) => a,
                Ok(Err(_)) => {
                    rep.inc("rejected_by_parser");
                    continue;
                }
                Err(p) => {
                    rep.violate(&format!("C06:parser-panic:{}", p.site()), p.msg, obj![("text", g.text.clone())]);
                    continue;
                }
            };
            rep.inc("accepted_programs");
            if asm.lines.iter().filter(|l| matches!(l, Line::Instruction(..))).count() > 255 {
                rep.inc("accepted_with_more_than_255_instruction_lines");
            }
            let lower_upper = g.text.chars().any(|c| c.is_ascii_lowercase()) && g.text.chars().any(|c| c.is_ascii_uppercase());
            if lower_upper {
                rep.inc("programs_with_mixed_case_refs");
            }
            if let Some((sig, what)) = check_inprocess(&asm, &g.text, &mut used, rep) {
                if sig.contains(":reload-panic:") {
                    rep.violate(&sig, what, obj![("history", J::Arr(used.history.iter().map(|t| J::from(t.clone())).collect()))]);
                    used = Used::new();
                } else {
                    rep.violate(&sig, what, obj![("text", g.text.clone())]);
                }
            }
            if i % tui_every == 0 && for_tui.len() < 12 && layout_class(&asm).0 == "well-formed" && (matches!((i * 200 + k) % 16, 8 | 9 | 10 | 11) || rng.chance(1, 6)) {
                for_tui.push(g.text.clone());
            }
            if (i * 200 + k) % cli_every == 0 {
                if let Some((sig, what)) = cli_pair(ctx, &g.text, &format!("{}-{}", i, k), rep) {
                    rep.violate(&sig, what, obj![("text", g.text.clone()), ("cli", true)]);
                }
            }
            if i == 0 && k == 5 {
                rep.sample(obj![("text", g.text.clone()), ("layout_class", layout_class(&asm).0)]);
            }
        }
        if !for_tui.is_empty() {
            if let Some((sig, what, upto)) = tui_loads(ctx, &for_tui, &format!("{}", i), rep) {
                rep.violate(&sig, what, obj![("tui_history", J::Arr(for_tui.iter().take(upto).map(|t| J::from(t.clone())).collect()))]);
            }
        }
    })
}

pub fn replay(ctx: &Ctx, w: &J) -> Report {
    let mut rep = Report::new();
    rep.evaluations = 1;
    let texts = |k: &str| -> Option<Vec<String>> { w.get(k).and_then(|a| a.as_arr()).map(|a| a.iter().filter_map(|t| t.as_str().map(|s| s.to_string())).collect()) };
    if let Some(h) = texts("history") {
        let mut used = Used::new();
        for t in &h {
            if let Ok(Ok(asm)) = catch(|| AsmParser::parse(t)) {
                if let Some((sig, what)) = check_inprocess(&asm, t, &mut used, &mut rep) {
                    rep.violate(&sig, what, w.clone());
                    break;
                }
            }
        }
        return rep;
    }
    if let Some(h) = texts("tui_history") {
        if let Some((sig, what, _)) = tui_loads(ctx, &h, "replay", &mut rep) {
            rep.violate(&sig, what, w.clone());
        }
        return rep;
    }
    let text = w.get("text").and_then(|t| t.as_str()).unwrap_or("");
    match catch(|| AsmParser::parse(text)) {
        Ok(Ok(asm)) => {
            if let Some((sig, what)) = check_inprocess(&asm, text, &mut Used::new(), &mut rep) {
                rep.violate(&sig, what, obj![("text", text)]);
            }
            if w.get("cli").is_some() {
                if let Some((sig, what)) = cli_pair(ctx, text, "replay", &mut rep) {
                    rep.violate(&sig, what, obj![("text", text), ("cli", true)]);
                }
            }
        }
        Ok(Err(e)) => rep.inconclusive(format!("replay text is rejected by the parser: {}", e)),
        Err(p) => rep.violate(&format!("C06:parser-panic:{}", p.site()), p.msg, obj![("text", text)]),
    }
    rep
}
