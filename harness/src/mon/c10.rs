//! C10 — bus address map: RAM, I/O registers and ports never alias or leak.
//! Reference: a map-based model of what the statement defines; everything
//! else (timer, UART, hidden board registers) is only required not to leak
//! into RAM / input / output registers.
use crate::json::J;
use crate::report::{Meta, Report};
use crate::rng::Rng;
use crate::util::{catch, par_items};
use crate::{obj, Ctx};
use crate::real;
use emulator_2a_lib::machine::{Bus, State};

pub fn meta() -> Meta {
    Meta {
        id: "C10",
        rule: "single operations: all 256 addresses x 256 values written to a randomised bus, then all 256 addresses read back and compared with the map model (exhaustive); all 65 536 ordered pairs of write addresses; plus seeded random read/write/set-input/board-input sequences checked after every operation; plus reads issued by the running CPU: every read-only instruction form (LD immediate/absolute/register-indirect, CMP and BITT with a memory operand, POP) x every byte value 0-255 as the datum read x every source (RAM cell, input registers FC-FF, operand byte) x interrupt-status states (none, key request recorded with the enable bit clear, request latched with the enable bit set and IE clear): the whole bus (RAM, registers, MICR, MISR, board) must be equal before and after the instruction. distinct_nontrivial counts distinct (operation kind, address) pairs exercised",
        exhaustive: true,
        assumptions: vec![
            "the map model only constrains what C10 states: RAM 00-EF, inputs FC-FF, outputs FE/FF, F9 (MICR write / MISR read), F0/F1 writes, F0/F1/F3 reads",
            "MICR is compared on its six defined bits",
        ],
        floors: vec![("single_ops", 65_536), ("pair_ops", 65_536), ("seq_ops", 100_000), ("reads_checked", 16_000_000), ("program_reads", 20_000), ("program_reads_with_status_set", 13_000)],
    }
}

#[derive(Clone)]
struct Model {
    ram: [u8; 0xF0],
    inputs: [u8; 4],
    outputs: [u8; 2],
    micr: u8,
    org: [u8; 2],
    di1: u8,
}

impl Model {
    fn new() -> Self {
        Model { ram: [0; 0xF0], inputs: [0; 4], outputs: [0; 2], micr: 0, org: [0; 2], di1: 0 }
    }
    fn write(&mut self, a: u8, v: u8) {
        match a {
            0x00..=0xEF => self.ram[a as usize] = v,
            0xF0 => self.org[0] = v,
            0xF1 => self.org[1] = v,
            0xF9 => self.micr = v & 0x3F,
            0xFE => self.outputs[0] = v,
            0xFF => self.outputs[1] = v,
            _ => {}
        }
    }
}

#[derive(Clone, Debug)]
enum Op {
    Write(u8, u8),
    Read(u8),
    Input(u8, u8),
    Di1(u8),
}

fn op_json(op: &Op) -> J {
    match op {
        Op::Write(a, v) => obj![("op", "write"), ("addr", *a), ("value", *v)],
        Op::Read(a) => obj![("op", "read"), ("addr", *a)],
        Op::Input(i, v) => obj![("op", "input"), ("reg", *i), ("value", *v)],
        Op::Di1(v) => obj![("op", "di1"), ("value", *v)],
    }
}

fn ops_from_json(j: &J) -> Vec<Op> {
    let g = |o: &J, k: &str| o.get(k).and_then(|v| v.as_i64()).unwrap_or(0) as u8;
    j.as_arr()
        .map(|a| {
            a.iter()
                .map(|o| match o.get("op").and_then(|s| s.as_str()).unwrap_or("") {
                    "write" => Op::Write(g(o, "addr"), g(o, "value")),
                    "read" => Op::Read(g(o, "addr")),
                    "input" => Op::Input(g(o, "reg") & 3, g(o, "value")),
                    _ => Op::Di1(g(o, "value")),
                })
                .collect()
        })
        .unwrap_or_default()
}

/// Compare everything the model defines; returns first mismatch.
fn compare(bus: &Bus, m: &Model, full_reads: bool, rep: &mut Report) -> Option<(String, String)> {
    if bus.memory()[..] != m.ram[..] {
        let i = (0..0xF0).find(|&i| bus.memory()[i] != m.ram[i]).unwrap();
        return Some(("C10:ram-content".into(), format!("RAM[{:#04x}] = {} but model says {}", i, bus.memory()[i], m.ram[i])));
    }
    if bus.output_fe() != m.outputs[0] || bus.output_ff() != m.outputs[1] {
        return Some(("C10:output-reg".into(), format!("outputs FE/FF = {}/{} expected {}/{}", bus.output_fe(), bus.output_ff(), m.outputs[0], m.outputs[1])));
    }
    let snap = bus.verif_snapshot();
    if snap.micr & 0x3F != m.micr {
        return Some(("C10:micr".into(), format!("MICR = {:#04x} expected {:#04x}", snap.micr, m.micr)));
    }
    if bus.is_key_edge_int_enabled() != (m.micr & 1 == 1) {
        return Some(("C10:micr".into(), "key edge enable does not follow MICR bit 0".into()));
    }
    if *bus.board().digital_output1() != m.org[0] || *bus.board().digital_output2() != m.org[1] {
        return Some(("C10:board-out".into(), format!("board output ports = {}/{} expected {}/{}", bus.board().digital_output1(), bus.board().digital_output2(), m.org[0], m.org[1])));
    }
    if *bus.board().digital_input1() != m.di1 {
        return Some(("C10:board-in".into(), "board input port not as last applied".into()));
    }
    if full_reads {
        rep.count("reads_checked", 256);
        let before = bus.clone();
        for a in 0..=255u8 {
            let got = bus.read(a);
            let exp = match a {
                0x00..=0xEF => Some(m.ram[a as usize]),
                0xF0 => Some(m.di1),
                0xF1 => Some(bus.board().dasr().bits()),
                0xF3 => Some(bus.board().daisr().bits()),
                0xF9 => Some(snap.misr),
                0xFC..=0xFF => Some(m.inputs[(a - 0xFC) as usize]),
                _ => None,
            };
            if let Some(e) = exp {
                if got != e {
                    let sig = match a {
                        0x00..=0xEF => "C10:ram-readback",
                        0xF0 | 0xF1 | 0xF3 => "C10:board-read",
                        0xF9 => "C10:misr-read",
                        _ => "C10:input-reg",
                    };
                    return Some((sig.into(), format!("read({:#04x}) = {} expected {}", a, got, e)));
                }
            }
        }
        if *bus != before {
            return Some(("C10:read-side-effect".into(), "reading all addresses changed the bus".into()));
        }
    }
    None
}

fn apply(bus: &mut Bus, m: &mut Model, op: &Op, rep: &mut Report) -> Option<(String, String)> {
    match *op {
        Op::Write(a, v) => {
            bus.write(a, v);
            m.write(a, v);
            rep.class(&[0, a as u64]);
        }
        Op::Read(a) => {
            let before = bus.clone();
            let got = bus.read(a);
            if *bus != before {
                return Some(("C10:read-side-effect".into(), format!("read({:#04x}) changed the bus", a)));
            }
            rep.class(&[1, a as u64]);
            let exp = match a {
                0x00..=0xEF => Some(m.ram[a as usize]),
                0xF0 => Some(m.di1),
                0xFC..=0xFF => Some(m.inputs[(a - 0xFC) as usize]),
                _ => None,
            };
            if let Some(e) = exp {
                if got != e {
                    return Some(("C10:readback".into(), format!("read({:#04x}) = {} expected {}", a, got, e)));
                }
            }
        }
        Op::Input(i, v) => {
            match i {
                0 => bus.input_fc(v),
                1 => bus.input_fd(v),
                2 => bus.input_fe(v),
                _ => bus.input_ff(v),
            }
            m.inputs[i as usize] = v;
            rep.class(&[2, i as u64]);
        }
        Op::Di1(v) => {
            bus.board_mut().set_digital_input1(v);
            m.di1 = v;
            rep.class(&[3, 0]);
        }
    }
    None
}

fn run_seq(prefix: &[Op], ops: &[Op], full_every: usize, rep: &mut Report) -> Option<(String, String, usize)> {
    let mut bus = Bus::new();
    let mut m = Model::new();
    for (i, op) in prefix.iter().chain(ops.iter()).enumerate() {
        let r = catch(|| {
            let mut local = Report::new();
            let r = apply(&mut bus, &mut m, op, &mut local).or_else(|| {
                let full = full_every > 0 && (i + 1) % full_every == 0 || i + 1 == prefix.len() + ops.len();
                compare(&bus, &m, full, &mut local)
            });
            (r, local)
        });
        match r {
            Ok((r, local)) => {
                rep.merge(local);
                if let Some((sig, what)) = r {
                    return Some((sig, what, i));
                }
            }
            Err(p) => return Some((format!("C10:panic:{}", p.site()), format!("panic: {}", p.msg), i)),
        }
    }
    None
}

/// Reads issued by the running CPU: a read-only instruction must leave the whole bus as it was,
/// whatever byte it reads and whatever the interrupt status is. `form` 0..=6, `src` 0..=4
/// (RAM cell 0x80, FC..FF), `status` 0..=2.
fn program_read(form: u8, src: u8, status: u8, v: u8) -> Result<(), (String, String)> {
    let addr = if src == 0 { 0x80 } else { 0xFB + src };
    let mut m = real::blank_machine();
    // NOP, the instruction under test, three NOPs, STOP
    let ins: Vec<u8> = match form {
        0 => vec![0xFB, v, 0x10],       // LD R0, v (the datum is the operand byte)
        1 => vec![0xFF, addr, 0x10],    // LD R0, (addr)
        2 => vec![0xF5, 0x12],          // LD R2, (R1)
        3 => vec![0xFF, addr, 0x20],    // CMP R0, (addr)
        4 => vec![0xFF, addr, 0x30],    // BITT R0, (addr)
        5 => vec![0x14],                // POP R0 (SP points below the cell)
        _ => vec![0xF9, 0x11],          // LD R1, (R1+)
    };
    let mut prog = vec![0x02];
    prog.extend_from_slice(&ins);
    prog.extend_from_slice(&[0x02, 0x02, 0x02, 0x01]);
    {
        let bus = m.raw_mut().bus_mut();
        bus.memory_mut()[..prog.len()].copy_from_slice(&prog);
        if src == 0 || form == 5 {
            bus.memory_mut()[0x80] = v;
        }
        match src {
            1 => bus.input_fc(v),
            2 => bus.input_fd(v),
            3 => bus.input_fe(v),
            4 => bus.input_ff(v),
            _ => {}
        }
        if status == 2 {
            bus.write(0xF9, 0x01);
        }
    }
    real::set_reg(&mut m, 1, addr);
    real::set_reg(&mut m, 5, 0x7F);
    let what = |s: &str| format!("form {} reading {:#04x} from {:#04x}, interrupt status case {}: {}", form, v, if form == 0 { 2 } else if form == 5 { 0x80 } else { addr }, status, s);
    real::to_first_boundary(&mut m);
    real::to_next_boundary(&mut m); // the leading NOP
    if status > 0 {
        m.trigger_key_interrupt();
    }
    let before = m.bus().clone();
    for k in 0..3 {
        if m.state() != State::Running {
            return Err(("C10:program-read-halts".into(), what("the machine stopped")));
        }
        real::to_next_boundary(&mut m);
        if *m.bus() != before {
            let (a, b) = (before.verif_snapshot(), m.bus().verif_snapshot());
            let sig = if a.misr != b.misr {
                "C10:program-read-changes-status"
            } else if before.memory()[..] != m.bus().memory()[..] {
                "C10:program-read-changes-ram"
            } else {
                "C10:program-read-side-effect"
            };
            return Err((sig.into(), what(&format!("after {} instruction(s) the bus differs (MISR {:#04x} -> {:#04x}, MICR {:#04x} -> {:#04x})", k + 1, a.misr, b.misr, a.micr, b.micr))));
        }
    }
    Ok(())
}

fn program_reads(rep: &mut Report, forms: &[u8]) {
    for &form in forms {
        for src in 0..5u8 {
            if (form == 0 || form == 5) && src != 0 {
                continue;
            }
            for status in 0..3u8 {
                for v in 0..=255u8 {
                    rep.evaluations += 1;
                    match catch(|| program_read(form, src, status, v)) {
                        Ok(Ok(())) => {
                            rep.inc("program_reads");
                            if status > 0 {
                                rep.inc("program_reads_with_status_set");
                            }
                            rep.class(&[4, form as u64, src as u64, status as u64]);
                        }
                        Ok(Err((sig, what))) => rep.violate(&sig, what, obj![("program_read", J::Arr(vec![J::from(form), J::from(src), J::from(status), J::from(v)]))]),
                        Err(p) => rep.violate(&format!("C10:panic:{}", p.site()), format!("panic: {}", p.msg), obj![("program_read", J::Arr(vec![J::from(form), J::from(src), J::from(status), J::from(v)]))]),
                    }
                }
            }
        }
    }
}

fn random_prefix(rng: &mut Rng) -> Vec<Op> {
    // a randomised starting bus: some RAM, inputs, outputs, MICR
    let mut ops = vec![];
    for _ in 0..24 {
        ops.push(Op::Write(rng.u8(), rng.u8()));
    }
    for i in 0..4 {
        ops.push(Op::Input(i, rng.u8()));
    }
    ops.push(Op::Di1(rng.u8()));
    ops
}

fn report_violation(rep: &mut Report, prefix: &[Op], ops: &[Op], r: (String, String, usize)) {
    let all: Vec<J> = prefix.iter().chain(ops.iter()).take(r.2 + 1).map(op_json).collect();
    rep.violate(&r.0, format!("after operation #{}: {}", r.2, r.1), obj![("ops", J::Arr(all))]);
}

pub fn run(ctx: &Ctx) -> Report {
    let seq_count = ctx.size(1_500_000, 60_000_000) as usize;
    let seed = ctx.seed;
    // items: 256 (single ops per address) + 256 (pairs per first address) + seq_count/100 batches
    let batches = (seq_count + 99) / 100;
    par_items(ctx.threads, 512 + 7 + batches, seed, move |i, s, rep| {
        let mut rng = Rng::new(s);
        if i >= 512 + batches {
            program_reads(rep, &[(i - 512 - batches) as u8]);
        } else if i < 256 {
            let a = i as u8;
            let prefix = random_prefix(&mut rng);
            for v in 0..=255u8 {
                let ops = [Op::Write(a, v)];
                rep.evaluations += 1;
                rep.count("single_ops", 1);
                if let Some(r) = run_seq(&prefix, &ops, 0, rep) {
                    report_violation(rep, &prefix, &ops, r);
                }
            }
            if a == 0xEF || a == 0xF0 {
                rep.sample(obj![("kind", "single write then read-back of all 256 addresses"), ("addr", a), ("values", "0..=255"), ("prefix_ops", prefix.len())]);
            }
        } else if i < 512 {
            let a1 = (i - 256) as u8;
            let prefix = random_prefix(&mut rng);
            for a2 in 0..=255u8 {
                let ops = [Op::Write(a1, rng.u8() | 1), Op::Write(a2, rng.u8() | 2)];
                rep.evaluations += 1;
                rep.count("pair_ops", 1);
                if let Some(r) = run_seq(&prefix, &ops, 0, rep) {
                    report_violation(rep, &prefix, &ops, r);
                }
            }
        } else {
            for k in 0..100 {
                let len = 20 + rng.usize(120);
                let mut ops = Vec::with_capacity(len);
                for _ in 0..len {
                    let addr = if rng.chance(1, 2) { 0xE8 + rng.below(24) as u8 } else { rng.u8() };
                    ops.push(match rng.below(10) {
                        0..=4 => Op::Write(addr, rng.byte_biased()),
                        5..=7 => Op::Read(addr),
                        8 => Op::Input(rng.below(4) as u8, rng.u8()),
                        _ => Op::Di1(rng.u8()),
                    });
                }
                rep.evaluations += 1;
                rep.count("seq_ops", len as u64);
                if let Some(r) = run_seq(&[], &ops, 16, rep) {
                    report_violation(rep, &[], &ops, r);
                }
                if i == 512 && k == 0 {
                    rep.sample(obj![("kind", "random sequence"), ("ops", J::Arr(ops.iter().take(12).map(op_json).collect()))]);
                }
            }
        }
    })
}

pub fn replay(_ctx: &Ctx, w: &J) -> Report {
    let mut rep = Report::new();
    rep.evaluations = 1;
    if let Some(a) = w.get("program_read").and_then(|a| a.as_arr()) {
        let g = |i: usize| a.get(i).and_then(|v| v.as_i64()).unwrap_or(0) as u8;
        match catch(|| program_read(g(0), g(1), g(2), g(3))) {
            Ok(Ok(())) => {}
            Ok(Err((sig, what))) => rep.violate(&sig, what, w.clone()),
            Err(p) => rep.violate(&format!("C10:panic:{}", p.site()), format!("panic: {}", p.msg), w.clone()),
        }
        return rep;
    }
    let ops = ops_from_json(w.get("ops").unwrap_or(&J::Null));
    if let Some(r) = run_seq(&[], &ops, 1, &mut rep) {
        report_violation(&mut rep, &[], &ops, r);
    }
    rep
}
