//! C13 — no program and no external stimulus can crash the emulator core.
//! Oracle: no panic (overflow checks on in the checked profile) and every
//! call returns (fuel), machine readable and steppable afterwards.
use crate::json::J;
use crate::mon::c01::{random_program, Init};
use crate::real;
use crate::report::{Meta, Report};
use crate::rng::Rng;
use crate::util::{catch, hex, par_items};
use crate::{obj, Ctx};
use emulator_2a_lib::machine::{verif, Bus, Machine, MachineConfig, State, StepMode};
use emulator_2a_lib::parser::Programsize;

pub fn meta() -> Meta {
    Meta {
        id: "C13",
        rule: "240-byte RAM images (uniform random, opcode-biased, I/O-address-biased operands, all-one-byte fills) x 5 stack sizes x program-size limits x seeded stimulus schedules (key interrupt, continue, CPU/master reset, input setters, board setters with adversarial f32 incl. NaN/inf/subnormal) interleaved with single clock edges, every call under catch_unwind with a clock-edge fuel; after each run all getters, all 256 bus reads and the signal decoders are called and the machine is stepped further; plus direct Bus::write/read of every address x value and board setters; plus long runs: programs that store arbitrary bytes to the interrupt mask, the timer and the board registers and then idle are clocked for 70 000-140 000 edges (beyond every 16-bit quantity) with an occasional key press, stepped by instruction, reset and run again. distinct_nontrivial counts distinct (image style, stack size, limit class, final state, micro-address bucket reached) classes",
        exhaustive: false,
        assumptions: vec!["Stacksize::NotSet is outside the quantifier (5 sizes) and is not injected"],
        floors: vec![("long_runs", 60), ("clock_edges", 20_000_000), ("stimuli", 500_000), ("io_bus_accesses_by_programs", 50_000), ("direct_bus_ops", 131_072), ("nan_or_inf_voltages", 1_000), ("micro_addresses_visited", 200), ("cases_with_trace_logging", 1_000), ("cases_with_warn_logging", 1_000)],
    }
}

pub struct Case {
    init: Init,
    ss: u8,
    limit: Option<u8>,
    ops: usize,
    stim_seed: u64,
    style: u8,
    /// program size setting NOSET (behaves like 'no program' for the supervision)
    ps_notset: bool,
}

impl Case {
    fn to_json(&self) -> J {
        let mut j = self.init.to_json(0);
        j.set("stacksize_index", J::from(self.ss));
        j.set("limit", match self.limit {
            None => J::from("auto"),
            Some(n) => J::from(n),
        });
        j.set("ops", J::from(self.ops));
        j.set("ps_notset", J::Bool(self.ps_notset));
        j.set("stim_seed", J::Int(self.stim_seed as i64));
        j
    }
    fn from_json(j: &J) -> Case {
        let (init, _) = Init::from_json(j);
        Case {
            init,
            ss: j.get("stacksize_index").and_then(|v| v.as_i64()).unwrap_or(0) as u8,
            limit: match j.get("limit") {
                Some(J::Int(n)) => Some(*n as u8),
                _ => None,
            },
            ops: j.get("ops").and_then(|v| v.as_u64()).unwrap_or(1000) as usize,
            stim_seed: j.get("stim_seed").and_then(|v| v.as_i64()).unwrap_or(0) as u64,
            style: 9,
            ps_notset: j.get("ps_notset").and_then(|v| v.as_bool()).unwrap_or(false),
        }
    }
}

fn io_biased_image(rng: &mut Rng) -> Init {
    // programs made of two-byte forms whose immediates / absolute addresses point into 0xF0-0xFF
    let mut init = Init::zero();
    let mut i = 0;
    while i + 5 < 0xF0 {
        let kind = rng.below(6);
        let io = 0xF0 + rng.below(16) as u8;
        match kind {
            0 => {
                // MOV (io), #imm
                init.ram[i] = 0xFB;
                init.ram[i + 1] = rng.u8();
                init.ram[i + 2] = 0x1F;
                init.ram[i + 3] = io;
                i += 4;
            }
            1 => {
                // MOV Rd, (io)
                init.ram[i] = 0xFF;
                init.ram[i + 1] = io;
                init.ram[i + 2] = 0x10 | rng.below(3) as u8;
                i += 3;
            }
            2 => {
                // BITS/BITC/CMP/BITT (io), #imm
                init.ram[i] = 0xFB;
                init.ram[i + 1] = rng.u8();
                init.ram[i + 2] = *rng.pick(&[0x5F, 0x6F, 0x2F, 0x3F]);
                init.ram[i + 3] = io;
                i += 4;
            }
            3 => {
                // LD R0, #io ; then register-indirect traffic
                init.ram[i] = 0xFB;
                init.ram[i + 1] = io;
                init.ram[i + 2] = 0x10 | rng.below(3) as u8;
                init.ram[i + 3] = 0xF4 | rng.below(3) as u8;
                init.ram[i + 4] = 0x14 + rng.below(12) as u8;
                i += 5;
            }
            4 => {
                // LDSP #io / stack traffic in I/O space
                init.ram[i] = 0xFB;
                init.ram[i + 1] = io;
                init.ram[i + 2] = 0x40;
                init.ram[i + 3] = 0x10 + rng.below(16) as u8;
                i += 4;
            }
            _ => {
                init.ram[i] = rng.u8();
                i += 1;
            }
        }
    }
    init.regs = [rng.u8(), rng.u8(), rng.u8(), 0, rng.u8(), 0];
    init
}

fn gen_case(k: usize, rng: &mut Rng) -> Case {
    let style = (k % 4) as u8;
    let mut init = match style {
        0 => {
            let mut i = Init::zero();
            for b in i.ram.iter_mut() {
                *b = rng.u8();
            }
            i.regs = [rng.u8(), rng.u8(), rng.u8(), 0, rng.u8(), 0];
            i
        }
        1 => random_program(rng),
        2 => io_biased_image(rng),
        _ => {
            let mut i = Init::zero();
            let b = rng.u8();
            for x in i.ram.iter_mut() {
                *x = b;
            }
            if rng.bool() {
                let p = rng.usize(0xE0);
                i.ram[p] = rng.u8();
                i.ram[p + 1] = rng.u8();
            }
            i.regs = [rng.u8(), rng.u8(), rng.u8(), 0, rng.u8(), 0];
            i
        }
    };
    init.regs[3] = 0;
    init.regs[5] = 0;
    init.inputs = [rng.u8(), rng.u8(), rng.u8(), rng.u8()];
    let limit = match rng.below(6) {
        0 => None,
        1 => Some(0),
        2 => Some(rng.below(16) as u8),
        3 | 4 => Some(255),
        _ => Some(rng.u8()),
    };
    let ps_notset = rng.chance(1, 12);
    Case { init, ss: (k / 4 % 5) as u8, limit, ops: 500 + rng.usize(6000), stim_seed: rng.next(), style, ps_notset }
}

fn touch_everything(m: &Machine) -> u64 {
    let mut acc = 0u64;
    for b in m.registers().content().iter() {
        acc += *b as u64;
    }
    acc += m.bus().memory().iter().map(|b| *b as u64).sum::<u64>();
    for a in 0..=255u8 {
        acc += m.bus().read(a) as u64;
    }
    let s = m.signals();
    acc += s.alu_select() as u64 + s.selected_register_a() as u64 + s.selected_register_b() as u64 + s.selected_register_for_writing() as u64;
    acc += s.next_microprogram_address() as u64 + s.alu_input_b_constant() as u64;
    acc += m.word().bits() as u64 + m.is_instruction_done() as u64;
    acc += m.is_stackpointer_valid() as u64 + m.is_program_counter_valid() as u64;
    let b = m.bus().board();
    acc += *b.fan_rpm() as u64 + b.get_fan_period() as u64 + b.dasr().bits() as u64 + b.daisr().bits() as u64 + b.daicr().bits() as u64;
    acc += b.daicr().interrupt_source() as u64;
    acc += m.bus().output_fe() as u64 + m.bus().output_ff() as u64 + m.bus().is_key_edge_int_enabled() as u64;
    let _ = format!("{:?}", m.state());
    acc
}

fn run_case(case: &Case, rep: &mut Report) -> Option<(String, String)> {
    let mut m = Machine::new(MachineConfig::default());
    m.raw_mut().set_stacksize(real::stacksize_of(case.ss));
    m.raw_mut().set_programsize(if case.ps_notset {
        Programsize::NotSet
    } else {
        match case.limit {
            None => Programsize::Auto,
            Some(n) => Programsize::Size(n),
        }
    });
    m.raw_mut().bus_mut().memory_mut().copy_from_slice(&case.init.ram);
    for i in [0usize, 1, 2, 4] {
        real::set_reg(&mut m, i, case.init.regs[i]);
    }
    let mut rng = Rng::new(case.stim_seed);
    let mut edges = 0u64;
    let mut stim = 0u64;
    let mut nan = 0u64;
    let mut io = 0u64;
    let mut last_op = String::new();
    let r = catch(|| {
        verif::set_fuel(Some(case.ops as u64 + 100));
        let log_all = case.style == 2;
        if log_all {
            verif::arm_edge_log();
        }
        for _ in 0..case.ops {
            let x = rng.below(1000);
            if x < 940 {
                real::edge(&mut m);
                edges += 1;
                continue;
            }
            stim += 1;
            match x - 940 {
                0..=9 => m.trigger_key_interrupt(),
                10..=17 => m.trigger_key_continue(),
                18..=21 => m.cpu_reset(),
                22..=23 => m.master_reset(),
                24..=29 => match rng.below(4) {
                    0 => m.set_input_fc(rng.u8()),
                    1 => m.set_input_fd(rng.u8()),
                    2 => m.set_input_fe(rng.u8()),
                    _ => m.set_input_ff(rng.u8()),
                },
                30..=33 => m.set_digital_input1(rng.u8()),
                34..=45 => {
                    let v = rng.f32_adversarial();
                    if !v.is_finite() {
                        nan += 1;
                    }
                    match rng.below(3) {
                        0 => m.set_temp(v),
                        1 => m.set_analog_input1(v),
                        _ => m.set_analog_input2(v),
                    }
                }
                46..=49 => m.set_jumper1(rng.bool()),
                50..=51 => m.set_jumper2(rng.bool()),
                52..=53 => m.set_universal_input_output1(rng.bool()),
                54..=55 => m.set_universal_input_output2(rng.bool()),
                56..=57 => m.set_universal_input_output3(rng.bool()),
                _ if log_all => {}
                _ => {
                    // a few edges with the log armed to see what the program touches
                    verif::arm_edge_log();
                    for _ in 0..8 {
                        real::edge(&mut m);
                    }
                    edges += 8;
                    for e in verif::take_edge_log() {
                        if e.bus_read.map(|a| a >= 0xF0).unwrap_or(false) || e.bus_write.map(|(a, _)| a >= 0xF0).unwrap_or(false) {
                            io += 1;
                        }
                    }
                }
            }
        }
        verif::set_fuel(None);
        if log_all {
            for e in verif::take_edge_log() {
                if e.bus_read.map(|a| a >= 0xF0).unwrap_or(false) || e.bus_write.map(|(a, _)| a >= 0xF0).unwrap_or(false) {
                    io += 1;
                }
            }
        }
        let t = touch_everything(&m);
        // still steppable
        verif::set_fuel(Some(100));
        if m.state() != State::Running {
            m.cpu_reset();
        }
        for _ in 0..20 {
            real::edge(&mut m);
        }
        verif::set_fuel(None);
        t
    });
    let _ = &mut last_op;
    rep.count("clock_edges", edges);
    rep.count("stimuli", stim);
    rep.count("nan_or_inf_voltages", nan);
    rep.count("io_bus_accesses_by_programs", io);
    match r {
        Ok(_) => {
            let snap = m.verif_snapshot();
            rep.mark(snap.micro_address);
            let lim = match case.limit {
                None => 0u64,
                Some(0) => 1,
                Some(255) => 3,
                _ => 2,
            };
            rep.class(&[case.style as u64, case.ss as u64, lim, m.state() as u64, (snap.micro_address / 32) as u64]);
            None
        }
        Err(p) => {
            let sig = if p.is_fuel() { "C13:call-does-not-return".to_string() } else { format!("C13:panic:{}", p.site()) };
            Some((sig, format!("{} at {}:{} after {} clock edges and {} stimuli", p.msg, p.file, p.line, edges, stim)))
        }
    }
}

fn direct_bus(rng: &mut Rng, rep: &mut Report) {
    let mut bus = Bus::new();
    for a in 0..=255u8 {
        for v in 0..=255u8 {
            let r = catch(|| {
                bus.write(a, v);
                let x = bus.read(a);
                let _ = bus.board().get_fan_period();
                x
            });
            rep.count("direct_bus_ops", 2);
            if let Err(p) = r {
                rep.violate(&format!("C13:panic:{}", p.site()), format!("Bus::write({:#04x}, {:#04x}) / read panicked: {}", a, v, p.msg), obj![("direct_bus", true), ("addr", a), ("value", v)]);
                bus = Bus::new();
            }
        }
    }
    for _ in 0..20_000 {
        let v = rng.f32_adversarial();
        let r = catch(|| {
            let b = bus.board_mut();
            b.set_temp(v);
            b.set_analog_input1(v);
            b.set_analog_input2(v);
            b.set_digital_output1(rng.u8());
            let _ = b.get_fan_period();
            b.fetch_interrupt()
        });
        if let Err(p) = r {
            rep.violate(&format!("C13:panic:{}", p.site()), format!("board setter with {:?} panicked: {}", v, p.msg), obj![("direct_bus", true), ("f32_bits", v.to_bits())]);
        }
    }
}

/// A program that configures the peripherals with arbitrary bytes and then idles; run for far
/// longer than any 16-bit quantity lasts, then stepped by instruction, reset and run again.
fn long_run_image(rng: &mut Rng) -> Vec<u8> {
    let mut img = vec![0xFB, 0xEF, 0x40]; // LDSP 0xEF
    let n = 6 + rng.usize(12);
    for k in 0..n {
        let addr = match k {
            0 => 0xF9,
            1 => 0xFD,
            2 => 0xFC,
            _ => 0xF0 + rng.below(16) as u8,
        };
        img.extend_from_slice(&[0xFB, rng.byte_biased(), 0x1F, addr]); // ST (addr), value
    }
    if rng.bool() {
        img.push(0x08); // EI
    }
    match rng.below(3) {
        0 => img.extend_from_slice(&[0x20, 0xFE]),                         // L: JR L
        1 => img.extend_from_slice(&[0x44, 0xF0, 0x1F, 0xA0, 0x20, 0xFA]), // L: INC R0; ST (0xA0),R0; JR L
        _ => img.extend_from_slice(&[0xFF, 0xFC, 0x11, 0x20, 0xFB]),       // L: LD R1,(0xFC); JR L
    }
    img
}

fn long_run(img: &[u8], edges: usize) -> Result<(), crate::util::Panic> {
    catch(|| {
        let mut m = real::blank_machine();
        m.raw_mut().bus_mut().memory_mut()[..img.len()].copy_from_slice(img);
        verif::set_fuel(Some(edges as u64 * 4 + 1_000_000));
        for t in 0..edges {
            real::edge(&mut m);
            if t % 9_973 == 0 {
                m.trigger_key_interrupt();
            }
        }
        m.set_step_mode(StepMode::Assembly);
        for _ in 0..2_000 {
            m.trigger_key_clock();
        }
        m.cpu_reset();
        m.set_step_mode(StepMode::Real);
        for _ in 0..edges / 2 {
            m.trigger_key_clock();
        }
        verif::set_fuel(None);
    })
    .map_err(|p| {
        verif::set_fuel(None);
        p
    })
}

pub fn run(ctx: &Ctx) -> Report {
    let n = ctx.size(3_000_000, 20_000_000) as usize;
    let batches = (n + 19) / 20;
    // users run with -v .. -vvvv: the arguments of warn!/trace! are then evaluated. Phase 1 runs
    // with a (dropping) logger at warn level, phase 2 repeats a slice of the work at trace level.
    crate::util::set_log_level(0);
    let mut rep = run_phase(ctx, batches, 0);
    crate::util::set_log_level(2);
    let warn_rep = run_phase(ctx, (batches / 12).max(50), 2);
    rep.count("cases_with_warn_logging", warn_rep.evaluations);
    rep.merge(warn_rep);
    crate::util::set_log_level(5);
    let trace_rep = run_phase(ctx, (batches / 60).max(50), 1);
    crate::util::set_log_level(0);
    rep.count("cases_with_trace_logging", trace_rep.evaluations);
    rep.merge(trace_rep);
    let long = par_items(ctx.threads, ctx.size(64, 1_000) as usize, ctx.seed ^ 0x10F6, |i, seed, rep| {
        let mut rng = Rng::new(seed);
        let img = long_run_image(&mut rng);
        let edges = 70_000 + rng.usize(70_000);
        rep.evaluations += 1;
        match long_run(&img, edges) {
            Ok(()) => {
                rep.inc("long_runs");
                rep.count("clock_edges_in_long_runs", edges as u64 * 3 / 2);
            }
            Err(p) => {
                let sig = if p.is_fuel() { "C13:no-return:long-run".to_string() } else { format!("C13:panic:{}", p.site()) };
                rep.violate(&sig, format!("after configuring the peripherals and idling for up to {} clock edges (item {}): {} ({}:{})", edges, i, p.msg, p.file, p.line), obj![("long_run_image", img.clone()), ("edges", edges)]);
            }
        }
    });
    rep.merge(long);
    let visited = rep.marks_in(0, 512);
    rep.count("micro_addresses_visited", visited);
    rep
}

fn run_phase(ctx: &Ctx, batches: usize, phase: u64) -> Report {
    par_items(ctx.threads, batches + 1, ctx.seed ^ (phase * 0x9E37), move |i, seed, rep| {
        let mut rng = Rng::new(seed);
        if i == 0 {
            direct_bus(&mut rng, rep);
            rep.evaluations += 1;
            return;
        }
        for k in 0..20 {
            let c = gen_case(i * 20 + k, &mut rng);
            rep.evaluations += 1;
            if i == 1 && k < 2 {
                rep.sample(obj![("image_style", c.style), ("image_first_24_bytes", hex(&c.init.ram[..24])), ("stack_size_index", c.ss), ("limit", format!("{:?}", c.limit)), ("operations", c.ops)]);
            }
            if let Some((sig, what)) = run_case(&c, rep) {
                let mut w = c.to_json();
                w.set("log_level", J::from(match phase {
                    0 => 0,
                    2 => 2,
                    _ => 5,
                }));
                rep.violate(&sig, what, w);
            }
        }
    })
}

pub fn replay(_ctx: &Ctx, w: &J) -> Report {
    let mut rep = Report::new();
    rep.evaluations = 1;
    if w.get("direct_bus").is_some() {
        let mut rng = Rng::new(1);
        direct_bus(&mut rng, &mut rep);
        return rep;
    }
    if let Some(img) = w.get("long_run_image").and_then(|v| v.bytes()) {
        let edges = w.get("edges").and_then(|v| v.as_u64()).unwrap_or(140_000) as usize;
        if let Err(p) = long_run(&img, edges) {
            let sig = if p.is_fuel() { "C13:no-return:long-run".to_string() } else { format!("C13:panic:{}", p.site()) };
            rep.violate(&sig, format!("{} ({}:{})", p.msg, p.file, p.line), w.clone());
        }
        return rep;
    }
    let c = Case::from_json(w);
    crate::util::set_log_level(w.get("log_level").and_then(|v| v.as_u64()).unwrap_or(5) as u8);
    if let Some((sig, what)) = run_case(&c, &mut rep) {
        rep.violate(&sig, what, c.to_json());
    }
    rep
}
