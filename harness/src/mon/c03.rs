//! C03 — the parser accepts exactly the mrasm language, builds the right AST
//! and never panics.
use crate::gen::asmtext::{self, Opts};
use crate::json::J;
use crate::refmodel::grammar::{recognise, Verdict};
use crate::report::{Meta, Report};
use crate::rng::Rng;
use crate::util::{catch, par_items};
use crate::{obj, Ctx};
use emulator_2a_lib::parser::{Asm, AsmParser, Line};

pub fn meta() -> Meta {
    Meta {
        id: "C03",
        rule: "(1) programs derived from the grammar generator (every instruction form, each numeric base, leading zeros, boundary values, spacing and case variants, 0-40 labels, Unicode comments): must be accepted with exactly the generating AST; (2) a table of directed boundary texts with hand-written verdicts (255/256, 65535/65536, 8/9 and 16/17 binary digits, 40/41 labels, undefined label, missing header, two items on a line, ...); (3) single-character / single-token mutations of valid programs and (4) random strings over the token alphabet and Unicode: the real verdict and AST must equal the hand-written recogniser's unless it says 'unspecified'; every input runs under catch_unwind and every error is rendered with Display. distinct_nontrivial counts distinct (verdict, first differing-from-valid token class / instruction shape) classes",
        exhaustive: false,
        assumptions: vec![
            "refmodel::grammar is the documented language; spellings it leaves open (lower-case pc, identifiers starting with R/PC/SP, 0X/0B, blanks inside parentheses or before commas, several blanks after '#! mrasm', CR line ends, duplicate label definitions, ';' at the ends of a comment, non-decimal .EQU values) are only checked for 'no panic'",
            "a trailing newline may or may not produce one more empty line in the AST",
        ],
        floors: vec![("generated_accepted_with_right_ast", 20_000), ("directed_cases", 140), ("texts_with_mixed_line_terminators", 10_000), ("mutants_judged", 50_000), ("mutants_must_reject", 20_000), ("mutants_must_accept", 5_000), ("random_strings_judged", 20_000), ("errors_rendered", 20_000)],
    }
}

fn same_ast(real: &Asm, expected: &Asm, trailing_newline: bool) -> bool {
    if real.comment_after_shebang != expected.comment_after_shebang {
        return false;
    }
    if real.lines == expected.lines {
        return true;
    }
    trailing_newline && real.lines.len() == expected.lines.len() + 1 && real.lines[..expected.lines.len()] == expected.lines[..] && real.lines.last() == Some(&Line::Empty(None))
}

fn first_diff(real: &Asm, expected: &Asm) -> String {
    if real.comment_after_shebang != expected.comment_after_shebang {
        return format!("header comment {:?}, written {:?}", real.comment_after_shebang, expected.comment_after_shebang);
    }
    for (i, (a, b)) in real.lines.iter().zip(expected.lines.iter()).enumerate() {
        if a != b {
            return format!("line {}: parsed {:?}, written {:?}", i, a, b);
        }
    }
    format!("{} lines parsed, {} written", real.lines.len(), expected.lines.len())
}

enum Real {
    Ok(Asm),
    Err(String),
}

fn real_parse(text: &str, rep: &mut Report) -> Result<Real, (String, String)> {
    match catch(|| AsmParser::parse(text)) {
        Ok(Ok(a)) => Ok(Real::Ok(a)),
        Ok(Err(e)) => match catch(|| format!("{} / {:?}", e, e)) {
            Ok(s) => {
                rep.inc("errors_rendered");
                Ok(Real::Err(s))
            }
            Err(p) => Err((format!("C03:panic-rendering-error:{}", p.site()), p.msg)),
        },
        Err(p) => Err((format!("C03:panic:{}", p.site()), format!("{} ({}:{})", p.msg, p.file, p.line))),
    }
}

/// Judge one text against the recogniser.
fn judge(text: &str, kind: &str, rep: &mut Report) -> Option<(String, String)> {
    let real = match real_parse(text, rep) {
        Ok(r) => r,
        Err(v) => return Some(v),
    };
    match recognise(text) {
        Verdict::Unspecified(why) => {
            rep.inc("unspecified_not_judged");
            rep.class_str(&format!("unspec:{}", why));
            None
        }
        Verdict::Accept(exp) => {
            rep.inc(&format!("{}_must_accept", kind));
            match real {
                Real::Ok(a) => {
                    if same_ast(&a, &exp, text.ends_with('\n')) {
                        rep.class_str(&format!("accept:{}", exp.lines.len().min(5)));
                        None
                    } else {
                        Some(("C03:wrong-ast".into(), first_diff(&a, &exp)))
                    }
                }
                Real::Err(e) => Some(("C03:valid-text-rejected".into(), format!("a text of the documented language is rejected: {}", e.lines().take(8).collect::<Vec<_>>().join(" | ")))),
            }
        }
        Verdict::Reject(why) => {
            rep.inc(&format!("{}_must_reject", kind));
            match real {
                Real::Err(_) => {
                    rep.class_str(&format!("reject:{}", why.split(" in line").next().unwrap_or("")));
                    None
                }
                Real::Ok(_) => Some(("C03:invalid-text-accepted".into(), format!("accepted although: {}", why))),
            }
        }
    }
}

const TOKENS: &[&str] = &[
    "#! mrasm", "\n", " ", "\t", ",", ";", ":", "(", ")", "+", "R0", "R1", "R3", "r2", "PC", "pc", "SP", "0x", "0b", "0", "1", "9", "255", "256", "0xFF", "0x100", "0b11111111", "0b111111111", "65535", "65536",
    ".ORG", ".BYTE", ".DB", ".DW", ".EQU", "*STACKSIZE", "*PROGRAMSIZE", "NOSET", "AUTO", "16", "64", "MOV", "LD", "ST", "ADD", "DEC", "CMP", "JR", "JMP", "CALL", "RET", "RETI", "PUSHF", "STOP", "NOP", "EI",
    "LOOP", "loop", "x_1", "_", "A", "ä", "→", "🎉", "\u{0}", "\r", "((", "))", "+)", "(R0+)", "((R1+))", "(0x10)", "(LOOP)", "LOOP:",
];

fn mutate(rng: &mut Rng, text: &str) -> String {
    let chars: Vec<char> = text.chars().collect();
    if chars.is_empty() {
        return "x".into();
    }
    let pos = rng.usize(chars.len());
    let mut out: Vec<char> = chars.clone();
    match rng.below(10) {
        0 => {
            out.remove(pos);
        }
        1 => {
            let t = TOKENS[rng.usize(TOKENS.len())];
            for (k, c) in t.chars().enumerate() {
                out.insert(pos + k, c);
            }
        }
        2 => {
            out[pos] = *rng.pick(&['0', '1', '2', '5', '6', '9', 'F', 'x', 'b', 'R', ',', ';', ':', '(', ')', '+', ' ', '\t', '\n', 'Z', 'é']);
        }
        3 => {
            // duplicate a token (run of non-blank characters)
            let mut a = pos;
            while a > 0 && !out[a - 1].is_whitespace() {
                a -= 1;
            }
            let mut b = pos;
            while b < out.len() && !out[b].is_whitespace() {
                b += 1;
            }
            let tok: Vec<char> = out[a..b].to_vec();
            for (k, c) in tok.iter().enumerate() {
                out.insert(b + k, *c);
            }
        }
        4 => {
            let c = out[pos];
            out[pos] = if c.is_ascii_lowercase() { c.to_ascii_uppercase() } else { c.to_ascii_lowercase() };
        }
        5 => {
            // change a digit
            if let Some(p) = (0..out.len()).map(|k| (pos + k) % out.len()).find(|p| out[*p].is_ascii_digit()) {
                out[p] = (b'0' + rng.below(10) as u8) as char;
            }
        }
        6 => {
            // delete a whole line
            let lines: Vec<&str> = text.split('\n').collect();
            let k = rng.usize(lines.len());
            let v: Vec<&str> = lines.iter().enumerate().filter(|(i, _)| *i != k).map(|(_, l)| *l).collect();
            return v.join("\n");
        }
        9 => {
            // duplicate a whole line (a label definition twice, an instruction twice)
            let lines: Vec<&str> = text.split('\n').collect();
            let k = rng.usize(lines.len());
            let mut v: Vec<&str> = vec![];
            for (i, l) in lines.iter().enumerate() {
                v.push(l);
                if i == k && i > 0 {
                    v.push(l);
                }
            }
            return v.join("\n");
        }
        7 => {
            // append a digit to a number: turns 25 into 255 / 2555, 0xF into 0xFF / 0xFFF
            if let Some(p) = (0..out.len()).map(|k| (pos + k) % out.len()).find(|p| out[*p].is_ascii_digit()) {
                out.insert(p + 1, *rng.pick(&['0', '5', '9', '1']));
            }
        }
        _ => {
            // swap two adjacent characters
            if pos + 1 < out.len() {
                out.swap(pos, pos + 1);
            }
        }
    }
    out.into_iter().collect()
}

fn random_string(rng: &mut Rng) -> String {
    let mut s = String::new();
    if rng.chance(3, 4) {
        s.push_str("#! mrasm");
        if rng.bool() {
            s.push('\n');
        }
    }
    let n = rng.usize(14);
    for _ in 0..n {
        if rng.chance(1, 12) {
            if let Some(c) = char::from_u32(rng.below(0x11_0000) as u32) {
                s.push(c);
            }
        } else {
            s.push_str(TOKENS[rng.usize(TOKENS.len())]);
            if rng.chance(1, 3) {
                s.push(' ');
            }
        }
    }
    s
}

/// Directed boundary texts with hand-written verdicts (Some(true) accept, Some(false) reject).
fn directed() -> Vec<(String, bool)> {
    let h = "#! mrasm\n";
    let mut v: Vec<(String, bool)> = vec![];
    let mut t = |body: &str, ok: bool| v.push((format!("{}{}", h, body), ok));
    t("", true);
    t("NOP", true);
    t(" nop ; c", true);
    t("LD R0, 255", true);
    t("LD R0, 256", false);
    t("LD R0, 0255", true);
    t("LD R0, 000", true);
    t("LD R0, 0xFF", true);
    t("LD R0, 0xff", true);
    t("LD R0, 0x100", false);
    t("LD R0, 0x0FF", true);
    t("LD R0, 0x", false);
    t("LD R0, 0b11111111", true);
    t("LD R0, 0b111111111", false);
    t("LD R0, 0b011111111", true);
    t("LD R0, 0b", false);
    t("LD R0, 0b2", false);
    t(".DW 65535", true);
    t(".DW 65536", false);
    t(".DW 0xFFFF", true);
    t(".DW 0x10000", false);
    t(".DW 0b1111111111111111", true);
    t(".DW 0b11111111111111111", false);
    t(".DW 1, 2,3,\t4", true);
    t(".DW 1,", false);
    t(".DB 255, 0", true);
    t(".DB 256", false);
    t(".DB", false);
    t(".ORG 10", true);
    t(".ORG L", false);
    t(".BYTE 0x10", true);
    t(".EQU K 12\nLD R0, K", true);
    t(".EQU K\nLD R0, K", false);
    t("*STACKSIZE 32", true);
    t("*STACKSIZE 33", false);
    t("*STACKSIZE noset", true);
    t("*PROGRAMSIZE 200", true);
    t("*PROGRAMSIZE 256", false);
    t("*PROGRAMSIZE auto", true);
    t("L:\nJR L", true);
    t("L:\nJR l", true);
    t("JR L", false);
    t("L: NOP", false);
    t("NOP NOP", false);
    t("NOP\nNOP", true);
    t("MOV R0", false);
    t("MOV R0, R1, R2", false);
    t("MOV (R0+), ((R1+))", true);
    t("MOV ((R0+)), (L)\nL:", true);
    t("MOV 5, R0", false);
    t("ST (0x10), R0", true);
    t("ST R0, (0x10)", false);
    t("LD R4, 1", false);
    t("CLR PC", true);
    t("PUSH", false);
    t("PUSHF", true);
    t("PUSHF R0", false);
    t("RETI", true);
    t("RETX", false);
    t("XYZ", false);
    t("DEC (R1)", true);
    t("LDSP 0xEF", true);
    t("LDFR (R2+)", true);
    t("CMP R0,R1", true);
    t("ADD R0,1", false);
    // 40 and 41 labels
    let mut forty = String::new();
    for i in 0..40 {
        forty.push_str(&format!("L{}:\n", i));
    }
    t(&forty, true);
    t(&format!("{}L40:\n", forty), false);
    // more than 40 definitions are too many even if names repeat (also case-insensitively, also via .EQU)
    t(&format!("{}L39:\n", forty), false);
    t(&format!("{}l0:\n", forty), false);
    t(&format!("{}.EQU L1 5\n", forty), false);
    v.push(("NOP".to_string(), false));
    v.push(("".to_string(), false));
    v.push(("#!mrasm\nNOP".to_string(), false));
    // the limit of 40 definitions, far beyond it, and around the multiples of 256
    for n in [0usize, 1, 39, 40, 41, 42, 80, 255, 256, 257, 270, 296, 297, 300, 511, 512, 513, 552, 553, 1000] {
        for style in 0..3 {
            let mut t = String::from("#! mrasm\n");
            for j in 0..n {
                match (style, j % 2) {
                    (0, _) | (2, 0) => t.push_str(&format!("l{}:\n", j)),
                    _ => t.push_str(&format!(".EQU e{} {}\n", j, j % 256)),
                }
            }
            t.push_str(" NOP\n");
            v.push((t, n <= 40));
        }
    }
    v.push(("#! mrasm\nNOP\r\r\nSTOP\n".to_string(), true));
    v.push(("#! mrasm\rNOP\rSTOP".to_string(), true));
    v.push(("#! MRASM\nNOP".to_string(), false));
    v.push(("#! mrasm".to_string(), true));
    v.push(("#! mrasm ; hello".to_string(), true));
    v.push(("#! mrasm;x\nNOP\n".to_string(), true));
    v.push(("#! mrasm x\nNOP".to_string(), false));
    v.push((" #! mrasm\nNOP".to_string(), false));
    v
}

pub fn run(ctx: &Ctx) -> Report {
    let n = ctx.size(1_200_000, 10_000_000) as usize;
    let batches = (n + 199) / 200;
    par_items(ctx.threads, batches + 1, ctx.seed, move |i, seed, rep| {
        let mut rng = Rng::new(seed);
        if i == 0 {
            for (text, ok) in directed() {
                rep.evaluations += 1;
                rep.inc("directed_cases");
                // the recogniser itself must agree with the hand-written verdict
                match recognise(&text) {
                    Verdict::Accept(_) if ok => {}
                    Verdict::Reject(_) if !ok => {}
                    other => rep.inconclusive(format!("harness bug: recogniser says {:?} for directed text {:?}", other, text)),
                }
                match real_parse(&text, rep) {
                    Ok(Real::Ok(_)) if ok => {}
                    Ok(Real::Err(_)) if !ok => {}
                    Ok(Real::Ok(_)) => rep.violate("C03:invalid-text-accepted", format!("directed text accepted although it must be rejected: {:?}", text), obj![("text", text.clone())]),
                    Ok(Real::Err(e)) => rep.violate("C03:valid-text-rejected", format!("directed text rejected although it is valid: {:?}: {}", text, e.lines().take(6).collect::<Vec<_>>().join(" | ")), obj![("text", text.clone())]),
                    Err((sig, what)) => rep.violate(&sig, what, obj![("text", text.clone())]),
                }
            }
            return;
        }
        let mut opts = Opts::parser();
        for k in 0..200 {
            opts.max_lines = if k % 20 == 0 { 60 } else { 14 };
            let mut g = asmtext::program(&mut rng, &opts);
            if k % 9 == 4 {
                // the three line terminators of the grammar, mixed line by line
                let mut t = String::with_capacity(g.text.len() + 16);
                for ch in g.text.chars() {
                    if ch == '\n' {
                        let mut term = ["\n", "\r\n", "\r", "\r\n"][rng.usize(4)];
                        if term == "\n" && t.ends_with('\r') {
                            // a lone CR followed by LF would read as one CRLF
                            term = "\r\n";
                        }
                        t.push_str(term);
                    } else {
                        t.push(ch);
                    }
                }
                g.text = t;
                rep.inc("texts_with_mixed_line_terminators");
            }
            rep.evaluations += 1;
            // (1) generated text: the expected AST is known by construction
            match real_parse(&g.text, rep) {
                Ok(Real::Ok(a)) => {
                    if same_ast(&a, &g.asm, g.trailing_newline) {
                        rep.inc("generated_accepted_with_right_ast");
                    } else {
                        rep.violate("C03:wrong-ast", first_diff(&a, &g.asm), obj![("text", g.text.clone())]);
                    }
                }
                Ok(Real::Err(e)) => rep.violate("C03:valid-text-rejected", format!("generated program rejected: {}", e.lines().take(8).collect::<Vec<_>>().join(" | ")), obj![("text", g.text.clone())]),
                Err((sig, what)) => rep.violate(&sig, what, obj![("text", g.text.clone())]),
            }
            match recognise(&g.text) {
                Verdict::Accept(a) if same_ast(&a, &g.asm, g.trailing_newline) => {}
                other => {
                    let s: String = format!("{:?}", other).chars().take(400).collect();
                    rep.inconclusive(format!("harness bug: recogniser disagrees with the generator on {:?}: {}", g.text, s));
                }
            }
            // (3) mutants
            for _ in 0..3 {
                let mut m = mutate(&mut rng, &g.text);
                if rng.chance(1, 5) {
                    m = mutate(&mut rng, &m);
                }
                rep.evaluations += 1;
                rep.inc("mutants_judged");
                if let Some((sig, what)) = judge(&m, "mutants", rep) {
                    rep.violate(&sig, what, obj![("text", m.clone())]);
                }
            }
            // (4) random strings
            let s = random_string(&mut rng);
            rep.evaluations += 1;
            rep.inc("random_strings_judged");
            if let Some((sig, what)) = judge(&s, "random", rep) {
                rep.violate(&sig, what, obj![("text", s.clone())]);
            }
            if i == 1 && k == 0 {
                rep.sample(obj![("generated", g.text.clone()), ("a_mutant", mutate(&mut rng, &g.text)), ("a_random_string", s.clone())]);
            }
        }
    })
}

pub fn replay(_ctx: &Ctx, w: &J) -> Report {
    let mut rep = Report::new();
    rep.evaluations = 1;
    let text = w.get("text").and_then(|t| t.as_str()).unwrap_or("");
    if let Some((sig, what)) = judge(text, "replay", &mut rep) {
        rep.violate(&sig, what, obj![("text", text)]);
    }
    rep
}
