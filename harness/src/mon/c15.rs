//! C15 — clock-cycle cost of an instruction = micro-steps + one wait per RAM
//! access. Offline checker over the clock edge log (hook H3) of every
//! instruction, against the documented path length of `refmodel::isa`.
use crate::json::J;
use crate::mon::c01::{self, Init, Lock, Sizes};
use crate::real::{self, Adv};
use crate::refmodel::isa::{self, Access, Outcome};
use crate::report::{Meta, Report};
use crate::util::{catch, hex, par_items};
use crate::{obj, Ctx};
use emulator_2a_lib::machine::verif::{self, EdgeEvent, EdgeKind};
use emulator_2a_lib::machine::{Machine, State, StepMode};

pub fn meta() -> Meta {
    Meta {
        id: "C15",
        rule: "for every instruction of the shared single-instruction/sequence workload (all ALU register pairs with MUL/DIV over all 65 536 operand pairs, unary ops, JR x flags x offsets, all two-byte forms x sampled pointers biased to the 0xEF/0xF0 boundary, stack/CALL/RETI/DEC-memory forms, random programs) the recorded edge log between two boundaries is checked: executed-step count = documented path length, bus accesses in documented order, exactly one wait-skipped edge after each step touching 0x00-0xEF and none otherwise, wait-skipped edges change nothing but the wait flag, and the same instruction costs the same number of edges in assembly-step mode. distinct_nontrivial counts distinct (first byte, executed steps, waits) classes observed",
        exhaustive: false,
        assumptions: vec!["documented path lengths are those of DESIGN.md appendix A (refmodel::isa), including the data-dependent formulas of MUL and DIV"],
        floors: vec![("instructions_checked", 3_000_000), ("muldiv_cases", 3_000_000), ("wait_edges_checked", 3_000_000), ("io_access_steps", 10_000), ("ram_access_steps", 300_000), ("stepmode_compared", 100_000), ("interrupt_entries_costed", 2_000)],
    }
}

struct Viol(String, String, usize);

fn check_wait_edge(before: &Machine, after: &Machine) -> Option<String> {
    if before.registers() != after.registers() {
        return Some("registers changed".into());
    }
    if before.bus() != after.bus() {
        return Some("bus changed".into());
    }
    if before.state() != after.state() {
        return Some("state changed".into());
    }
    let (mut a, b) = (before.verif_snapshot(), after.verif_snapshot());
    if !a.pending_wait_for_memory || b.pending_wait_for_memory {
        return Some("wait flag not consumed".into());
    }
    a.pending_wait_for_memory = false;
    if a != b {
        return Some(format!("sequencer/pipeline state changed: {:?} -> {:?}", a, b));
    }
    None
}

/// Clock the real machine from one boundary to the next, edge by edge.
fn advance_logged(m: &mut Machine, rep: &mut Report) -> Result<(Adv, Vec<EdgeEvent>), String> {
    verif::arm_edge_log();
    verif::set_fuel(Some(real::FUEL_PER_INSTRUCTION));
    let mut n = 0u64;
    let mut phase = 0;
    loop {
        if m.state() != State::Running {
            break;
        }
        let done = m.is_instruction_done();
        if phase == 0 && !done {
            phase = 1;
        }
        if phase == 1 && done {
            break;
        }
        let waiting = m.verif_snapshot().pending_wait_for_memory;
        if waiting {
            let before = m.clone();
            real::edge(m);
            rep.inc("wait_edges_checked");
            if let Some(why) = check_wait_edge(&before, m) {
                verif::set_fuel(None);
                let _ = verif::take_edge_log();
                return Err(why);
            }
        } else {
            real::edge(m);
        }
        n += 1;
    }
    verif::set_fuel(None);
    let log = verif::take_edge_log();
    let adv = if m.state() == State::Running { Adv::Boundary(n) } else { Adv::Halted(n) };
    Ok((adv, log))
}

fn analyse(first: u8, steps: u32, accesses: &[Access], log: &[EdgeEvent], class: &str, rep: &mut Report) -> Option<(String, String)> {
    // expected shape: [W if fetch in RAM] then for each body step: X [W if RAM access], then X (next fetch)
    let mut i = 0usize;
    let fetch_in_ram = accesses[0].addr() <= 0xEF;
    if fetch_in_ram {
        if log.get(0).map(|e| e.kind) != Some(EdgeKind::WaitSkipped) {
            return Some((format!("C15:{}:wait-missing", class), "no wait-skipped edge after an opcode fetch from RAM".into()));
        }
        i = 1;
    } else if log.get(0).map(|e| e.kind) == Some(EdgeKind::WaitSkipped) {
        return Some((format!("C15:{}:wait-spurious", class), "wait-skipped edge after an opcode fetch from an I/O address".into()));
    }
    let mut executed = 0u32;
    let mut waits = fetch_in_ram as u32;
    let mut acc_idx = 1usize;
    while i < log.len() {
        let e = &log[i];
        match e.kind {
            EdgeKind::Executed => {
                executed += 1;
                let last = i + 1 == log.len();
                let touched: Option<(u8, bool)> = match (e.bus_read, e.bus_write) {
                    (_, Some((a, _))) => Some((a, true)),
                    (Some(a), None) => Some((a, false)),
                    _ => None,
                };
                if !last {
                    if let Some((a, is_write)) = touched {
                        // must be the next documented access
                        match accesses.get(acc_idx) {
                            Some(Access::Write(x)) if is_write && *x == a => {}
                            Some(Access::Read(x)) if !is_write && *x == a => {}
                            other => {
                                return Some((format!("C15:{}:access-order", class), format!("step {} {} {:#04x} but the documented access #{} is {:?}", executed, if is_write { "writes" } else { "reads" }, a, acc_idx, other)));
                            }
                        }
                        acc_idx += 1;
                        if a <= 0xEF {
                            rep.inc("ram_access_steps");
                        } else {
                            rep.inc("io_access_steps");
                        }
                    }
                    let next_is_wait = log.get(i + 1).map(|n| n.kind) == Some(EdgeKind::WaitSkipped);
                    let needs_wait = touched.map(|(a, _)| a <= 0xEF).unwrap_or(false);
                    if needs_wait && !next_is_wait {
                        return Some((format!("C15:{}:wait-missing", class), format!("step {} touched RAM address {:#04x} and was not followed by a wait-skipped edge", executed, touched.unwrap().0)));
                    }
                    if !needs_wait && next_is_wait {
                        return Some((format!("C15:{}:wait-spurious", class), format!("step {} touched {:?} and was followed by a wait-skipped edge", executed, touched)));
                    }
                    if e.done_after {
                        return Some((format!("C15:{}:steps", class), format!("fetch word reached after {} steps, documented path has {}", executed, steps)));
                    }
                } else if !e.done_after {
                    return Some((format!("C15:{}:steps", class), "interval does not end with the next opcode fetch".into()));
                }
            }
            EdgeKind::WaitSkipped => {
                waits += 1;
                if i + 1 < log.len() && log[i + 1].kind == EdgeKind::WaitSkipped {
                    return Some((format!("C15:{}:wait-double", class), "two consecutive wait-skipped edges".into()));
                }
            }
            EdgeKind::Ignored => {
                return Some((format!("C15:{}:ignored-edge", class), "clock edge ignored while Running".into()));
            }
        }
        i += 1;
    }
    if acc_idx != accesses.len() {
        return Some((format!("C15:{}:access-count", class), format!("{} bus accesses observed, documented path has {}", acc_idx, accesses.len())));
    }
    if executed != steps {
        return Some((format!("C15:{}:steps", class), format!("{} executed steps (incl. the next fetch) between boundaries, documented path has {} (incl. its own fetch)", executed, steps)));
    }
    let expected_waits = accesses.iter().filter(|a| a.addr() <= 0xEF).count() as u32;
    if log.len() as u32 != steps + expected_waits {
        return Some((format!("C15:{}:cost", class), format!("{} clock edges, expected {} steps + {} waits", log.len(), steps, expected_waits)));
    }
    rep.class(&[first as u64, executed as u64, waits as u64]);
    None
}

fn run_case(template: &Machine, init: &Init, n: usize, irq_seed: Option<u64>, rep: &mut Report) -> (u64, Option<Viol>) {
    let r = catch(|| {
        let mut local = Report::new();
        let mut m = init.build(template);
        let mut irq_rng = irq_seed.map(crate::rng::Rng::new);
        if irq_rng.is_some() {
            // key interrupts enabled from the start: enable bit in the MICR and IE in the flag register
            m.raw_mut().bus_mut().write(0xF9, 0x01);
            let fr = real::arch(&m).fr;
            real::set_reg(&mut m, 4, fr | 0x08);
        }
        if let Adv::Halted(_) = real::to_first_boundary(&mut m) {
            return (0, None, local);
        }
        let mut lock = Lock::new(m);
        let mut checked = 0u64;
        for k in 0..n {
            if n > 1 && k % 97 == 41 {
                // a CPU reset in the middle of a run: exactly one step (the opcode fetch at
                // address 0) leads to the first boundary, whatever was going on before
                let mut r = lock.m.clone();
                // advance a few edges so that the reset lands at an arbitrary phase
                for _ in 0..(k % 7) {
                    real::edge(&mut r);
                }
                r.cpu_reset();
                let mut edges = 0;
                verif::set_fuel(Some(real::FUEL_PER_INSTRUCTION));
                while !r.is_instruction_done() && r.state() == State::Running {
                    real::edge(&mut r);
                    edges += 1;
                }
                verif::set_fuel(None);
                local.inc("resets_costed");
                if r.state() == State::Running && edges != 1 {
                    return (checked, Some(Viol("C15:reset-to-first-fetch".into(), format!("{} clock edges from a CPU reset to the first opcode fetch, expected 1", edges), k)), local);
                }
            }
            if let Some(r) = irq_rng.as_mut() {
                if r.chance(1, 6) {
                    lock.m.trigger_key_interrupt();
                    local.inc("key_presses");
                }
            }
            let latched = lock.m.verif_snapshot().pending_edge_interrupt;
            let first = lock.m.bus().read(lock.cpu.r[3]);
            lock.bus.f9_read = false;
            let mut out = isa::step(&mut lock.cpu, &mut lock.bus);
            if latched {
                // the request is sampled by the last word of every instruction except EI, DI and RETI;
                // with IE set (after the instruction) the entry sequence follows instead of the fetch:
                // 8 more steps (IR reset word + push FR + push PC + DI + jump to 2), two stack writes
                if let Outcome::Done { steps, accesses, class } = &mut out {
                    use crate::refmodel::isa::Class;
                    let samples = !matches!(class, Class::Ei | Class::Di | Class::Reti);
                    if samples && lock.cpu.fr & 0x08 != 0 {
                        *steps += 8;
                        accesses.push(Access::Write(lock.cpu.sp.wrapping_sub(1)));
                        accesses.push(Access::Write(lock.cpu.sp.wrapping_sub(2)));
                        local.inc("interrupt_entries_costed");
                    }
                }
            }
            if let Outcome::Undefined { .. } = out {
                break;
            }
            if lock.bus.f9_read {
                // the interrupt status register read by this instruction is modified by the CPU
                // itself while the instruction runs (not modelled, see C01): execute, do not judge
                if let Adv::Halted(_) = real::to_next_boundary(&mut lock.m) {
                    break;
                }
                lock.resync();
                local.inc("misr_reads_not_judged");
                continue;
            }
            // cost in assembly-step mode from the same state
            let mut asm_clone = lock.m.clone();
            let (adv, log) = match advance_logged(&mut lock.m, &mut local) {
                Ok(x) => x,
                Err(why) => return (checked, Some(Viol("C15:wait-edge-side-effect".into(), why, k)), local),
            };
            match (&out, adv) {
                (Outcome::Done { steps, accesses, class }, Adv::Boundary(_)) => {
                    if let Some((sig, what)) = analyse(first, *steps, accesses, &log, class.name(), &mut local) {
                        return (checked, Some(Viol(sig, what, k)), local);
                    }
                    checked += 1;
                    asm_clone.set_step_mode(StepMode::Assembly);
                    verif::arm_edge_log();
                    verif::set_fuel(Some(real::FUEL_PER_INSTRUCTION));
                    asm_clone.trigger_key_clock();
                    verif::set_fuel(None);
                    let alog = verif::take_edge_log();
                    local.inc("stepmode_compared");
                    if alog.len() != log.len() {
                        return (checked, Some(Viol(format!("C15:{}:step-mode-cost", class.name()), format!("{} edges in real mode, {} edges inside one assembly step", log.len(), alog.len()), k)), local);
                    }
                }
                (_, Adv::Halted(_)) => {
                    if lock.m.state() == State::Stopped {
                        lock.m.trigger_key_continue();
                        if let Adv::Halted(_) = real::to_next_boundary(&mut lock.m) {
                            break;
                        }
                    } else {
                        break;
                    }
                }
                _ => {}
            }
            lock.resync();
        }
        (checked, None, local)
    });
    match r {
        Ok((c, v, local)) => {
            rep.merge(local);
            (c, v)
        }
        Err(p) => {
            let sig = if p.is_fuel() { "C15:no-completion".to_string() } else { format!("C15:panic:{}", p.site()) };
            (0, Some(Viol(sig, format!("{} at {}:{}", p.msg, p.file, p.line), 0)))
        }
    }
}

pub fn run(ctx: &Ctx) -> Report {
    let template = real::blank_machine();
    let sz = Sizes {
        two_byte_samples: ctx.size(600, 5000) as usize,
        misc_samples: ctx.size(1500, 20_000) as usize,
        seq_programs: ctx.size(120_000, 3_000_000) as usize,
        alu_stride: if ctx.quick() { 16 } else { 1 },
    };
    let total = c01::n_items(&sz);
    par_items(ctx.threads, total, ctx.seed, |i, seed, rep| {
        let mut sampled = false;
        c01::cases(i, seed, &sz, &mut |group, init, n, _hint| {
            let irq = if group == "seq" && seed & 1 == 1 { Some(seed ^ init.ram[7] as u64) } else { None };
            let (checked, v) = run_case(&template, init, n, irq, rep);
            rep.evaluations += 1;
            rep.count("instructions_checked", checked);
            if group == "alu" && (init.ram[init.regs[3] as usize] & 0xF0 == 0xB0 || init.ram[init.regs[3] as usize] & 0xF0 == 0xC0) {
                rep.count("muldiv_cases", 1);
            }
            if group == "seq" && i + 1 == total && !sampled {
                sampled = true;
                rep.sample(obj![("kind", "random program, every instruction's edge log checked"), ("program_first_32_bytes", hex(&init.ram[..32])), ("instructions_checked", checked)]);
            }
            if let Some(Viol(sig, what, k)) = v {
                let mut w = init.to_json(n);
                if let Some(s) = irq {
                    w.set("irq_seed", J::Int(s as i64));
                }
                rep.violate(&sig, format!("instruction #{}: {}", k, what), w);
            }
        });
    })
}

pub fn replay(_ctx: &Ctx, w: &J) -> Report {
    let mut rep = Report::new();
    let (init, n) = Init::from_json(w);
    let template = real::blank_machine();
    let irq = w.get("irq_seed").and_then(|v| v.as_i64()).map(|v| v as u64);
    let (checked, v) = run_case(&template, &init, n, irq, &mut rep);
    rep.evaluations = 1;
    rep.count("instructions_checked", checked);
    if let Some(Viol(sig, what, k)) = v {
        rep.violate(&sig, format!("instruction #{}: {}", k, what), init.to_json(n));
    }
    rep
}
