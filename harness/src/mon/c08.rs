//! C08 — the ALU computes its documented function and flags for every input.
//! Exhaustive differential: real `AluOutput::from_input` vs `refmodel::alu`.
use crate::json::J;
use crate::refmodel::alu::{alu, NAMES};
use crate::report::{Meta, Report};
use crate::util::{catch, par_items};
use crate::{obj, Ctx};
use emulator_2a_lib::machine::{AluInput, AluOutput, AluSelect};

pub fn meta() -> Meta {
    Meta {
        id: "C08",
        rule: "every point of 16 functions x 256 x 256 operands x 2 carry-in is evaluated through the real AluOutput::from_input and compared with the reference function table, and every function's 4-bit select code (the number the micro-instruction word uses for it) is compared with the documented list; distinct_nontrivial counts distinct (function, carry-in, carry/zero/negative outcome) classes observed on the real ALU",
        exhaustive: true,
        assumptions: vec!["the reference table in harness/src/refmodel/alu.rs is the documented function (doc comments of AluSelect + statement of C08)"],
        floors: vec![("points", 2_097_152), ("functions_seen", 16), ("select_codes_checked", 16)],
    }
}

fn select(i: u8) -> AluSelect {
    use AluSelect::*;
    [ADDH, A, NOR, ZERO, ADD, ADDS, ADC, ADCS, LSR, RR, RRC, ASR, B, SETC, BH, INVC][i as usize]
}

/// The documented list gives every function its 4-bit select code; the micro-instruction word
/// addresses the functions by that code.
fn check_codes(rep: &mut Report) {
    for f in 0..16u8 {
        let code = select(f) as u8;
        if code != f {
            rep.violate(
                &format!("C08:{}:select-code", NAMES[f as usize]),
                format!("function {} has select code {:#06b}, the documented list says {:#06b}", NAMES[f as usize], code, f),
                obj![("function", NAMES[f as usize]), ("select", f), ("codes_only", true)],
            );
        }
        rep.inc("select_codes_checked");
    }
}

fn check_point(f: u8, a: u8, b: u8, cin: bool, rep: &mut Report) {
    let sel = select(f);
    let real = catch(|| AluOutput::from_input(&AluInput::new(a, b, cin), &sel));
    let witness = || obj![("function", NAMES[f as usize]), ("select", f), ("a", a), ("b", b), ("carry_in", cin)];
    let real = match real {
        Ok(r) => r,
        Err(p) => {
            rep.violate(
                &format!("C08:{}:panic:{}", NAMES[f as usize], p.site()),
                format!("ALU panicked: {}", p.msg),
                witness(),
            );
            return;
        }
    };
    let (o, c, z, n) = alu(f, a, b, cin);
    let got = (real.output(), real.carry_out(), real.zero_out(), real.negative_out());
    rep.class(&[f as u64, cin as u64, got.1 as u64, got.2 as u64, got.3 as u64]);
    let mut bad = |field: &str, exp: String, obs: String| {
        let mut w = witness();
        w.set("field", J::from(field));
        w.set("expected", J::from(exp.clone()));
        w.set("observed", J::from(obs.clone()));
        let sig = if f == 0 && field == "carry" && cin && !got.1 {
            "C08:ADDH-carry-not-held".to_string()
        } else {
            format!("C08:{}:{}", NAMES[f as usize], field)
        };
        rep.violate(
            &sig,
            format!("{} a={} b={} cin={}: {} expected {} observed {}", NAMES[f as usize], a, b, cin, field, exp, obs),
            w,
        );
    };
    if got.0 != o {
        bad("result", o.to_string(), got.0.to_string());
    }
    if got.1 != c {
        bad("carry", c.to_string(), got.1.to_string());
    }
    if got.2 != z {
        bad("zero", z.to_string(), got.2.to_string());
    }
    if got.3 != n {
        bad("negative", n.to_string(), got.3.to_string());
    }
}

pub fn run(ctx: &Ctx) -> Report {
    // one work item per (function, a): 4096 items x 512 points
    let mut rep = par_items(ctx.threads, 16 * 256, ctx.seed, |i, _seed, rep| {
        let f = (i / 256) as u8;
        let a = (i % 256) as u8;
        for b in 0..=255u8 {
            for &cin in &[false, true] {
                check_point(f, a, b, cin, rep);
                rep.evaluations += 1;
            }
        }
        rep.count("points", 512);
        if a == 0 {
            rep.inc("functions_seen");
        }
        if a == 0x9C && f % 5 == 0 {
            let r = AluOutput::from_input(&AluInput::new(a, 0x77, true), &select(f));
            rep.sample(obj![("function", NAMES[f as usize]), ("a", a), ("b", 0x77), ("carry_in", true),
                ("real_result", r.output()), ("real_carry", r.carry_out()), ("real_zero", r.zero_out()), ("real_negative", r.negative_out())]);
        }
    });
    rep.count("profile_checked", ctx.checked as u64);
    check_codes(&mut rep);
    rep
}

pub fn replay(_ctx: &Ctx, w: &J) -> Report {
    let mut rep = Report::new();
    let g = |k: &str| w.get(k).and_then(|v| v.as_i64()).unwrap_or(0) as u8;
    let cin = w.get("carry_in").and_then(|v| v.as_bool()).unwrap_or(false);
    if w.get("codes_only").is_some() {
        check_codes(&mut rep);
        rep.evaluations = 1;
        return rep;
    }
    check_point(g("select"), g("a"), g("b"), cin, &mut rep);
    rep.evaluations = 1;
    rep
}
