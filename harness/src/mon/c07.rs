//! C07 — CPU reset, master reset and program load restore exactly the
//! documented state, after any history.
use crate::gen::prog::{self, BodyOpts, Builder};
use crate::json::J;
use crate::mon::c01::random_program;
use crate::real;
use crate::report::{Meta, Report};
use crate::rng::Rng;
use crate::util::{catch, hex, par_items};
use crate::{obj, Ctx};
use emulator_2a_lib::compiler::ByteCode;
use emulator_2a_lib::machine::verif::VerifSnapshot;
use emulator_2a_lib::machine::{verif, Machine, MachineConfig, State, StepMode};
use emulator_2a_lib::parser::{Line, Programsize, Stacksize};

pub fn meta() -> Meta {
    Meta {
        id: "C07",
        rule: "seeded random histories over {load program, clock edges in either step mode, key interrupt, continue, CPU reset, master reset, input-register and board-input setters, step-mode switches; loaded programs write every I/O address}; after EVERY prefix each kind of reset is applied to a clone and the documented post-state is checked field by field (public getters + snapshot hooks), and a follow-up program (now and then cut short: empty, one or two bytes, a random prefix) is loaded and run in lock-step against a newly created machine with the same program and inputs. distinct_nontrivial counts distinct (reset kind, machine state before, sequencer phase before, board-outputs-dirty?, inputs-dirty?) classes",
        exhaustive: false,
        assumptions: vec![
            "power-on values are the documented ones: registers 0, micro-address 0, instruction register 0x02, no pending writes/interrupt/wait, ALU latch 0, outputs/MICR/UCR 0, inputs 0, timer off with dividers 0, board outputs 0 V, DAICR 0, fan 0, UIO directions input",
            "MISR, USR, UART data and the board's status/interrupt-status bits are not named by C07 and not asserted",
        ],
        floors: vec![("histories", 500), ("prefix_resets_checked", 50_000), ("loads_compared", 5_000), ("loads_compared_in_assembly_mode", 1_000), ("history_load_limits_checked", 2_000), ("lockstep_cycles", 1_000_000), ("resets_with_dirty_board_outputs", 200), ("resets_with_dirty_sequencer", 10_000), ("resets_from_halted", 1_000), ("resets_followed_by_twin_lockstep", 10_000), ("loads_of_an_empty_image", 100)],
    }
}

#[derive(Clone, Debug)]
pub enum Op {
    Load(usize),
    Edges(u16),
    AsmSteps(u8),
    Interrupt,
    Continue,
    CpuReset,
    MasterReset,
    Input(u8, u8),
    Di1(u8),
    Volt(u8, u32),
    Jumper(u8, bool),
    Uio(u8, bool),
    Mode(bool),
}

fn op_json(op: &Op) -> J {
    J::from(format!("{:?}", op))
}

fn bytecode(image: &[u8], ss: Stacksize, ps: Programsize) -> ByteCode {
    ByteCode { lines: vec![(Line::Empty(None), image.to_vec())], stacksize: ss, programsize: ps }
}

/// A program that writes the board/timer/UART/interrupt registers and then idles.
fn io_writer(rng: &mut Rng) -> Vec<u8> {
    let mut b = Builder::new();
    b.ldsp_imm(0xEF);
    for _ in 0..(4 + rng.usize(10)) {
        let addr = 0xF0 + rng.below(16) as u8;
        let v = if addr == 0xF2 { *rng.pick(&[0x87u8, 0x07, 0xC5, 0xE6, 0xDE]) } else { rng.byte_biased() | 1 };
        b.st_abs_imm(addr, v);
    }
    if rng.bool() {
        b.emit(&[0x08]);
    }
    let l = b.label();
    b.place(l);
    b.unary(0x44, 0);
    b.st_abs(0xFF, 0);
    b.jr(0, l);
    b.finish().unwrap_or_else(|| vec![0x02])
}

/// A terminating follow-up program using only RAM and FC-FF.
fn follow_up(rng: &mut Rng) -> Vec<u8> {
    let mut b = Builder::new();
    b.ldsp_imm(0xEF);
    let subs: Vec<_> = (0..2).map(|_| b.label()).collect();
    let statements = 6 + rng.usize(10);
    prog::body(&mut b, rng, &BodyOpts { statements, ie_changes: false, outputs: true }, &subs);
    b.st_abs(0xFF, 0);
    b.st_abs(0xFE, 1);
    b.emit(&[0x01]);
    let e = b.label();
    b.place(e);
    b.jr(0, e);
    for s in &subs {
        b.place(*s);
        prog::subroutine(&mut b, rng);
    }
    b.finish().unwrap_or_else(|| vec![0x01])
}

pub struct History {
    programs: Vec<(Vec<u8>, u8, i32)>,
    ops: Vec<Op>,
    follow: Vec<u8>,
    follow_inputs: [u8; 4],
    seed: u64,
}

fn ss_of(i: u8) -> Stacksize {
    match i {
        0 => Stacksize::_0,
        1 => Stacksize::_16,
        2 => Stacksize::_32,
        3 => Stacksize::_48,
        4 => Stacksize::_64,
        _ => Stacksize::NotSet,
    }
}
fn ps_of(i: i32) -> Programsize {
    match i {
        -1 => Programsize::Auto,
        -2 => Programsize::NotSet,
        n => Programsize::Size(n as u8),
    }
}

fn gen_history(rng: &mut Rng, len: usize) -> History {
    let mut programs = vec![];
    for k in 0..4 {
        let img = match k % 3 {
            0 => io_writer(rng),
            1 => random_program(rng).ram.to_vec(),
            _ => follow_up(rng),
        };
        let ss = *rng.pick(&[0u8, 1, 1, 2, 3, 4, 5]);
        let ps = match rng.below(9) {
            0 | 1 => -1i32,
            2 => -2,
            3 => 255,
            4 => 200,
            5 => 0,
            6 => *rng.pick(&[1i32, 239, 240, 254]),
            _ => rng.u8() as i32,
        };
        programs.push((img, ss, ps));
    }
    let mut ops = vec![Op::Load(0)];
    for _ in 0..len {
        ops.push(match rng.below(40) {
            0..=2 => Op::Load(rng.usize(4)),
            3..=16 => Op::Edges(1 + rng.below(300) as u16),
            17..=18 => Op::AsmSteps(1 + rng.below(20) as u8),
            19..=20 => Op::Interrupt,
            21 => Op::Continue,
            22..=23 => Op::CpuReset,
            24 => Op::MasterReset,
            25..=28 => Op::Input(rng.below(4) as u8, rng.u8() | 1),
            29 => Op::Di1(rng.u8() | 1),
            30..=32 => Op::Volt(rng.below(3) as u8, rng.f32_adversarial().to_bits()),
            33..=34 => Op::Jumper(rng.below(2) as u8, rng.bool()),
            35..=37 => Op::Uio(rng.below(3) as u8, rng.bool()),
            _ => Op::Mode(rng.bool()),
        });
    }
    History { programs, ops, follow: follow_up(rng), follow_inputs: [rng.u8(), rng.u8(), rng.u8(), rng.u8()], seed: rng.next() }
}

fn apply(m: &mut Machine, op: &Op, h: &History) {
    match *op {
        Op::Load(i) => {
            let (img, ss, ps) = &h.programs[i];
            m.load(bytecode(img, ss_of(*ss), ps_of(*ps)));
        }
        Op::Edges(n) => {
            m.set_step_mode(StepMode::Real);
            for _ in 0..n {
                m.trigger_key_clock();
            }
        }
        Op::AsmSteps(n) => {
            let mode = m.step_mode();
            m.set_step_mode(StepMode::Assembly);
            for _ in 0..n {
                m.trigger_key_clock();
            }
            m.set_step_mode(mode);
        }
        Op::Interrupt => m.trigger_key_interrupt(),
        Op::Continue => m.trigger_key_continue(),
        Op::CpuReset => m.cpu_reset(),
        Op::MasterReset => m.master_reset(),
        Op::Input(i, v) => match i {
            0 => m.set_input_fc(v),
            1 => m.set_input_fd(v),
            2 => m.set_input_fe(v),
            _ => m.set_input_ff(v),
        },
        Op::Di1(v) => m.set_digital_input1(v),
        Op::Volt(i, bits) => {
            let v = f32::from_bits(bits);
            match i {
                0 => m.set_temp(v),
                1 => m.set_analog_input1(v),
                _ => m.set_analog_input2(v),
            }
        }
        Op::Jumper(i, v) => {
            if i == 0 {
                m.set_jumper1(v)
            } else {
                m.set_jumper2(v)
            }
        }
        Op::Uio(i, v) => match i {
            0 => m.set_universal_input_output1(v),
            1 => m.set_universal_input_output2(v),
            _ => m.set_universal_input_output3(v),
        },
        Op::Mode(a) => m.set_step_mode(if a { StepMode::Assembly } else { StepMode::Real }),
    }
}

type V = (String, String);

fn power_on_snapshot() -> VerifSnapshot {
    VerifSnapshot {
        micro_address: 0,
        instruction_register: 0x02,
        pending_register_write: None,
        pending_flag_write: false,
        pending_edge_interrupt: false,
        pending_level_interrupt: false,
        pending_wait_for_memory: false,
        alu_output: 0,
        alu_carry_out: false,
        alu_zero_out: false,
        alu_negative_out: false,
        last_bus_read: 0,
    }
}

fn check_cpu_part(before: &Machine, after: &Machine, kind: &str) -> Option<V> {
    if after.registers().content() != &[0u8; 8] {
        return Some((format!("C07:{}:registers-not-cleared", kind), format!("registers after reset: {:?}", after.registers().content())));
    }
    let s = after.verif_snapshot();
    if s != power_on_snapshot() {
        return Some((format!("C07:{}:sequencer-not-reset", kind), format!("sequencer/pipeline state after reset: {:?}", s)));
    }
    if after.bus().output_fe() != 0 || after.bus().output_ff() != 0 {
        return Some((format!("C07:{}:outputs-not-cleared", kind), "output registers not 0 after reset".into()));
    }
    let b = after.bus().verif_snapshot();
    if b.micr != 0 || after.bus().is_key_edge_int_enabled() {
        return Some((format!("C07:{}:micr-not-cleared", kind), format!("MICR = {:#04x} after reset", b.micr)));
    }
    if b.ucr != 0 {
        return Some((format!("C07:{}:ucr-not-cleared", kind), format!("UCR = {:#04x} after reset", b.ucr)));
    }
    if after.state() != State::Running {
        return Some((format!("C07:{}:not-running", kind), "machine not Running after reset".into()));
    }
    if after.bus().memory()[..] != before.bus().memory()[..] {
        return Some((format!("C07:{}:ram-changed", kind), "RAM changed by a reset".into()));
    }
    if after.stacksize() != before.stacksize() || after.programsize() != before.programsize() {
        return Some((format!("C07:{}:limits-changed", kind), "stack/program size limits changed by a reset".into()));
    }
    if after.step_mode() != before.step_mode() {
        return Some((format!("C07:{}:step-mode-changed", kind), "step mode changed by a reset".into()));
    }
    None
}

fn check_cpu_reset(before: &Machine) -> Option<V> {
    let mut after = before.clone();
    after.cpu_reset();
    if let Some(v) = check_cpu_part(before, &after, "cpu-reset") {
        return Some(v);
    }
    for a in 0xFC..=0xFFu8 {
        if after.bus().read(a) != before.bus().read(a) {
            return Some(("C07:cpu-reset:inputs-changed".into(), format!("input register {:#04x} changed by a CPU reset", a)));
        }
    }
    let (b0, b1) = (before.bus().verif_snapshot(), after.bus().verif_snapshot());
    if (b0.timer_enabled, b0.timer_div1, b0.timer_div2, b0.timer_div3) != (b1.timer_enabled, b1.timer_div1, b1.timer_div2, b1.timer_div3) {
        return Some(("C07:cpu-reset:timer-changed".into(), "timer settings changed by a CPU reset".into()));
    }
    if after.bus().board() != before.bus().board() {
        return Some(("C07:cpu-reset:board-changed".into(), "extension board changed by a CPU reset".into()));
    }
    None
}

fn check_master_reset(before: &Machine, after: &Machine, kind: &str) -> Option<V> {
    for a in 0xFC..=0xFFu8 {
        if after.bus().read(a) != 0 {
            return Some((format!("C07:{}:inputs-not-cleared", kind), format!("input register {:#04x} = {} after a master reset", a, after.bus().read(a))));
        }
    }
    let b1 = after.bus().verif_snapshot();
    if b1.timer_enabled || b1.timer_div1 != 0 || b1.timer_div2 != 0 || b1.timer_div3 != 0 {
        return Some((format!("C07:{}:timer-not-cleared", kind), "timer settings not at power-on values after a master reset".into()));
    }
    let (bb, ba) = (before.bus().board(), after.bus().board());
    if *ba.digital_output1() != 0 || *ba.digital_output2() != 0 || ba.analog_outputs() != &[0.0, 0.0] || ba.daicr().bits() != 0 || *ba.fan_rpm() != 0 || ba.uio_dir() != &[false; 3] {
        return Some(("C07:board-not-reset-by-master-reset".into(), format!("{}: board outputs after master reset: ORG1={} ORG2={} AO={:?} DAICR={:#04x} fan={} UIO dirs={:?}", kind, ba.digital_output1(), ba.digital_output2(), ba.analog_outputs(), ba.daicr().bits(), ba.fan_rpm(), ba.uio_dir())));
    }
    let same_f = |x: f32, y: f32| x.to_bits() == y.to_bits();
    if ba.digital_input1() != bb.digital_input1() || !same_f(*ba.temp(), *bb.temp()) || !same_f(ba.analog_inputs()[0], bb.analog_inputs()[0]) || !same_f(ba.analog_inputs()[1], bb.analog_inputs()[1]) || (ba.dasr().bits() ^ bb.dasr().bits()) & 0xC0 != 0 {
        return Some((format!("C07:{}:board-inputs-changed", kind), "the board's physical inputs (DI1, TEMP, AI1/2, J1/J2) changed by a master reset".into()));
    }
    // the level applied from outside to a UIO pin that was configured as input is a physical input too
    for i in 0..3 {
        if !bb.uio_dir()[i] && (ba.dasr().bits() ^ bb.dasr().bits()) & (1 << i) != 0 {
            return Some((format!("C07:{}:board-inputs-changed", kind), format!("the level of input pin UIO{} in DA-SR changed by a master reset ({:#04x} -> {:#04x})", i + 1, bb.dasr().bits(), ba.dasr().bits())));
        }
    }
    None
}

fn run_history(h: &History, quick: bool, rep: &mut Report) -> Option<(V, usize)> {
    let mut m = Machine::new(MachineConfig::default());
    let mut rng = Rng::new(h.seed);
    verif::set_fuel(Some(50_000_000));
    for (i, op) in h.ops.iter().enumerate() {
        let (ss_before, ps_before) = (m.stacksize(), m.programsize());
        apply(&mut m, op, h);
        if let Op::Load(k) = op {
            // the program's limits are applied; NOSET keeps the previous setting
            let (img, ss, ps) = &h.programs[*k];
            let exp_ss = if *ss == 5 { ss_before } else { ss_of(*ss) };
            let exp_ps = match *ps {
                -2 => ps_before,
                -1 => Programsize::Size(img.len() as u8),
                n => Programsize::Size(n as u8),
            };
            rep.inc("history_load_limits_checked");
            if m.stacksize() != exp_ss {
                return Some((("C07:load:stacksize".into(), format!("stack size after load {:?}, expected {:?} (program says index {}, before {:?})", m.stacksize(), exp_ss, ss, ss_before)), i));
            }
            if m.programsize() != exp_ps {
                return Some((("C07:load:programsize".into(), format!("program size after load {:?}, expected {:?} (program says {}, before {:?})", m.programsize(), exp_ps, ps, ps_before)), i));
            }
        }
        // every prefix: each kind of reset on a clone
        let snap = m.verif_snapshot();
        let dirty_board = *m.bus().board().digital_output1() != 0 || m.bus().board().daicr().bits() != 0 || m.bus().board().uio_dir() != &[false; 3];
        let dirty_seq = snap.micro_address != 0 || snap.pending_register_write.is_some() || snap.pending_wait_for_memory;
        rep.count("prefix_resets_checked", 3);
        if dirty_board {
            rep.inc("resets_with_dirty_board_outputs");
        }
        if dirty_seq {
            rep.inc("resets_with_dirty_sequencer");
        }
        if m.state() != State::Running {
            rep.inc("resets_from_halted");
        }
        let inputs_dirty = (0xFC..=0xFFu8).any(|a| m.bus().read(a) != 0);
        for k in 0..3u64 {
            rep.class(&[k, m.state() as u64, (snap.micro_address != 0) as u64, snap.pending_wait_for_memory as u64, snap.pending_edge_interrupt as u64, dirty_board as u64, inputs_dirty as u64]);
        }
        if let Some(v) = check_cpu_reset(&m) {
            return Some((v, i));
        }
        let mut mr = m.clone();
        mr.master_reset();
        if let Some(v) = check_cpu_part(&m, &mr, "master-reset").or_else(|| check_master_reset(&m, &mr, "master-reset")) {
            return Some((v, i));
        }
        // no state outside what a reset restores: a reset machine and a newly created machine that
        // is given the same sequencer/bus state must react alike to the clock key in either mode
        if rng.chance(1, 4) {
            for (which, reset) in [("cpu-reset", {
                let mut c = m.clone();
                c.cpu_reset();
                c
            }), ("master-reset", mr.clone())] {
                let mut a = reset;
                let mut twin = Machine::new(MachineConfig::default());
                *twin.raw_mut() = a.raw_mut().clone();
                let mode = if rng.chance(2, 3) { StepMode::Assembly } else { StepMode::Real };
                a.set_step_mode(mode);
                twin.set_step_mode(mode);
                for c in 0..24 {
                    a.trigger_key_clock();
                    twin.trigger_key_clock();
                    if *a.raw_mut() != *twin.raw_mut() {
                        return Some(((format!("C07:{}:hidden-state", which), format!("clock key #{} after the reset ({:?} mode): the reset machine and a newly created machine given the same state differ (PC {:#04x} vs {:#04x}, state {:?} vs {:?})", c, mode, real::arch(&a).r[3], real::arch(&twin).r[3], a.state(), twin.state())), i));
                    }
                }
                rep.inc("resets_followed_by_twin_lockstep");
            }
        }
        // load of the follow-up program
        if !quick || rng.chance(1, 3) || i + 1 == h.ops.len() {
            let ss = *rng.pick(&[0u8, 1, 2, 3, 4]);
            // now and then the image is cut short (empty, one or two bytes, a random prefix): "the image
            // followed by zeros" must hold for these too
            let any_cut = rng.usize(h.follow.len() + 1);
            let cut = if rng.chance(1, 8) { *rng.pick(&[0usize, 0, 1, 2, any_cut]) } else { h.follow.len() };
            let follow = &h.follow[..cut.min(h.follow.len())];
            if follow.is_empty() {
                rep.inc("loads_of_an_empty_image");
            }
            let ps = *rng.pick(&[-1i32, -1, 255, 255, 0, 240, follow.len() as i32]);
            let mut ml = m.clone();
            ml.load(bytecode(follow, ss_of(ss), ps_of(ps)));
            let mut expect_ram = [0u8; 0xF0];
            expect_ram[..follow.len()].copy_from_slice(follow);
            if ml.bus().memory()[..] != expect_ram[..] {
                return Some((("C07:load:ram".into(), "RAM after load is not the image followed by zeros".into()), i));
            }
            if ml.stacksize() != ss_of(ss) {
                return Some((("C07:load:stacksize".into(), "stack size after load is not the program's".into()), i));
            }
            let exp_ps = if ps == -1 { Programsize::Size(follow.len() as u8) } else { ps_of(ps) };
            if ml.programsize() != exp_ps {
                return Some((("C07:load:programsize".into(), format!("program size after load {:?}, expected {:?}", ml.programsize(), exp_ps)), i));
            }
            // a load performs a master reset (board inputs survive)
            let mut before_regs_cleared = m.clone();
            before_regs_cleared.raw_mut().bus_mut().memory_mut().copy_from_slice(&expect_ram);
            before_regs_cleared.raw_mut().set_stacksize(ss_of(ss));
            before_regs_cleared.raw_mut().set_programsize(exp_ps);
            if let Some(v) = check_cpu_part(&before_regs_cleared, &ml, "load").or_else(|| check_master_reset(&m, &ml, "load")) {
                return Some((v, i));
            }
            // behavioural: cycle for cycle as on a newly created machine
            let mut fresh = Machine::new_with_program(MachineConfig::default(), bytecode(follow, ss_of(ss), ps_of(ps)));
            let asm_mode = rng.chance(1, 3);
            if asm_mode {
                rep.inc("loads_compared_in_assembly_mode");
            }
            for mm in [&mut ml, &mut fresh] {
                mm.set_step_mode(if asm_mode { StepMode::Assembly } else { StepMode::Real });
                mm.set_input_fc(h.follow_inputs[0]);
                mm.set_input_fd(h.follow_inputs[1]);
                mm.set_input_fe(h.follow_inputs[2]);
                mm.set_input_ff(h.follow_inputs[3]);
            }
            rep.inc("loads_compared");
            let cycles = if quick { 400 } else { 1500 };
            for c in 0..cycles {
                ml.trigger_key_clock();
                fresh.trigger_key_clock();
                if ml.registers() != fresh.registers() || ml.state() != fresh.state() || ml.bus().output_fe() != fresh.bus().output_fe() || ml.bus().output_ff() != fresh.bus().output_ff() || ml.bus().memory()[..] != fresh.bus().memory()[..] {
                    return Some((("C07:load:behaviour-depends-on-history".into(), format!("cycle {} after load: reloaded machine differs from a newly created one (registers {:?} vs {:?}, state {:?} vs {:?})", c, ml.registers().content(), fresh.registers().content(), ml.state(), fresh.state())), i));
                }
                if ml.state() != State::Running {
                    break;
                }
            }
            rep.count("lockstep_cycles", cycles as u64);
        }
    }
    verif::set_fuel(None);
    None
}

fn witness(h: &History, upto: usize) -> J {
    obj![
        ("programs", J::Arr(h.programs.iter().map(|(img, ss, ps)| obj![("image", img.clone()), ("stacksize_index", *ss), ("programsize", *ps)]).collect())),
        ("ops", J::Arr(h.ops.iter().take(upto + 1).map(op_json).collect())),
        ("follow_up", h.follow.clone()),
        ("follow_up_hex", hex(&h.follow)),
        ("follow_inputs", h.follow_inputs.to_vec()),
        ("seed", J::Int(h.seed as i64)),
        ("gen_seed", J::Null),
    ]
}

fn record(h: &History, gen_seed: u64, len: usize, quick: bool, rep: &mut Report) {
    rep.evaluations += 1;
    rep.inc("histories");
    let r = catch(|| {
        let mut local = Report::new();
        let v = run_history(h, quick, &mut local);
        (v, local)
    });
    let mut w = |upto: usize| {
        let mut j = witness(h, upto);
        j.set("gen_seed", J::Int(gen_seed as i64));
        j.set("gen_len", J::from(len));
        j
    };
    match r {
        Ok((v, local)) => {
            rep.merge(local);
            if let Some(((sig, what), i)) = v {
                rep.violate(&sig, format!("after history operation #{} ({:?}): {}", i, h.ops[i], what), w(i));
            }
        }
        Err(p) => {
            let sig = if p.is_fuel() { "C07:fuel".to_string() } else { format!("C07:panic:{}", p.site()) };
            rep.violate(&sig, format!("{} at {}:{}", p.msg, p.file, p.line), w(h.ops.len()));
        }
    }
}

pub fn run(ctx: &Ctx) -> Report {
    let n = ctx.size(300_000, 1_500_000) as usize;
    let quick = ctx.quick();
    par_items(ctx.threads, n, ctx.seed, move |i, seed, rep| {
        let mut rng = Rng::new(seed);
        let len = if quick { 20 + rng.usize(40) } else { 50 + rng.usize(150) };
        let h = gen_history(&mut rng, len);
        if i == 0 {
            rep.sample(obj![("history_first_12_ops", J::Arr(h.ops.iter().take(12).map(op_json).collect())), ("follow_up_hex", hex(&h.follow)), ("every_prefix_followed_by", "cpu_reset, master_reset, load")]);
        }
        record(&h, seed, len, quick, rep);
    })
}

pub fn replay(ctx: &Ctx, w: &J) -> Report {
    // histories are regenerated from their generator seed (operations are stored for the reader)
    let mut rep = Report::new();
    let seed = w.get("gen_seed").and_then(|v| v.as_i64()).unwrap_or(0) as u64;
    let len = w.get("gen_len").and_then(|v| v.as_u64()).unwrap_or(40) as usize;
    let mut rng = Rng::new(seed);
    // consume the same draws as `run` did before generating
    let _ = if ctx.quick() { 20 + rng.usize(40) } else { 50 + rng.usize(150) };
    let h = gen_history(&mut rng, len);
    record(&h, seed, len, ctx.quick(), &mut rep);
    rep
}
