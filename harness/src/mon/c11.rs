//! C11 — assembly-step mode equals clock-stepping to the next instruction
//! boundary, and a step always returns.
use crate::json::J;
use crate::mon::c01::{random_program, second_defined, Init};
use crate::real;
use crate::report::{Meta, Report};
use crate::rng::Rng;
use crate::util::{catch, hex, par_items};
use crate::{obj, Ctx};
use emulator_2a_lib::machine::verif::{self, EdgeEvent, EdgeKind};
use emulator_2a_lib::machine::{Machine, MicroprogramRam, State, StepMode, Word};

pub fn meta() -> Meta {
    Meta {
        id: "C11",
        rule: "states sampled along seeded random-program runs (every cycle of short runs, random cycles of long ones; with key interrupts latched, memory waits pending, halted machines) : one assembly step on a clone with the edge log armed must (i) consist of exactly the edges up to the next instruction boundary or halt, (ii) equal a clock-stepped clone given the same number of single edges (full Machine equality), (iii) random mode switches during a run must not change the state reached after the same number of raw edges, (iv) return within 20 000 edges; termination additionally for each of the 256 opcode bytes at the PC and each of the 256 second bytes after each of 0xF0-0xFF. distinct_nontrivial counts distinct (micro-address at the step, halted?, wait pending?, interrupt latched?) classes from which a step was compared",
        exhaustive: false,
        assumptions: vec!["bounded progress: 'returns' is restated as 'returns within 20 000 clock edges' (longest legitimate instruction is about 1 100 edges)"],
        floors: vec![("steps_compared", 150_000), ("steps_from_mid_instruction", 50_000), ("steps_from_halted", 1_000), ("steps_with_interrupt_latched", 1_000), ("steps_with_wait_pending", 50_000), ("termination_cases", 256 + 16 * 256), ("mode_switch_runs", 500), ("steps_on_trapped_instruction", 100)],
    }
}

type V = (String, String);

/// A word that fetches a FIRST opcode byte: it loads the instruction register (MAC0 and MAC2
/// without MAC1) and decodes the loaded byte as a first byte (NA4 clear). This is the functional
/// meaning of "instruction boundary"; the MAC3 marker read by is_instruction_done() must agree.
fn is_first_fetch(addr: usize) -> bool {
    let w = MicroprogramRam::CONTENT[addr];
    w.contains(Word::MAC0) && w.contains(Word::MAC2) && !w.contains(Word::MAC1) && !w.contains(Word::NA4)
}

fn hang_class(m: &Machine) -> String {
    let s = m.verif_snapshot();
    match s.micro_address {
        0x083 => "first-byte-4C-4F".to_string(),
        0x1C0..=0x1C3 => "first-byte-E0-EF".to_string(),
        a if a & 0x10 != 0 && a < 0x200 => "second-byte-undefined".to_string(),
        a => format!("other-{:#05x}", a),
    }
}

/// One assembly step from state `m` (not modified); all checks of C11.
fn check_step(m: &Machine, rep: &mut Report) -> Option<V> {
    let snap = m.verif_snapshot();
    let halted = m.state() != State::Running;
    let d0 = is_first_fetch(snap.micro_address);
    if d0 != m.is_instruction_done() {
        return Some(("C11:boundary-marker-disagrees".into(), format!("micro-address {:#05x}: is_instruction_done() = {} but the word {} an opcode fetch", snap.micro_address, m.is_instruction_done(), if d0 { "is" } else { "is not" })));
    }
    let mut a = m.clone();
    a.set_step_mode(StepMode::Assembly);
    let mut stuck_probe = m.clone();
    let r = catch(|| {
        verif::arm_edge_log();
        verif::set_fuel(Some(real::FUEL_PER_INSTRUCTION));
        a.trigger_key_clock();
        verif::set_fuel(None);
        (verif::take_edge_log(), a)
    });
    let (log, mut a): (Vec<EdgeEvent>, Machine) = match r {
        Ok(x) => x,
        Err(p) => {
            let _ = verif::take_edge_log();
            if p.is_fuel() {
                // where is it stuck?
                let rr = catch(|| {
                    for _ in 0..3000 {
                        real::edge(&mut stuck_probe);
                    }
                    hang_class(&stuck_probe)
                });
                let class = rr.unwrap_or_else(|_| "unknown".into());
                return Some((format!("C11:assembly-step-no-return:{}", class), format!("one assembly step did not return within {} clock edges (IR={:#04x}, micro-address {:#05x})", real::FUEL_PER_INSTRUCTION, snap.instruction_register, snap.micro_address)));
            }
            return Some((format!("C11:panic:{}", p.site()), format!("assembly step panicked: {}", p.msg)));
        }
    };
    // (i) shape
    if halted {
        if !log.is_empty() && log.iter().any(|e| e.kind != EdgeKind::Ignored) {
            return Some(("C11:step-on-halted-machine-executes".into(), "a step on a halted machine executed clock edges".into()));
        }
    } else {
        if log.is_empty() {
            return Some(("C11:step-does-nothing".into(), "a step on a running machine issued no clock edge".into()));
        }
        let mut seen_not_done = !d0;
        for (i, e) in log.iter().enumerate() {
            let fetch_after = is_first_fetch(e.micro_address_after);
            if !fetch_after {
                seen_not_done = true;
            }
            let terminal = e.state_after != State::Running || (seen_not_done && fetch_after);
            let last = i + 1 == log.len();
            if terminal && !last {
                return Some(("C11:step-runs-past-boundary".into(), format!("the step continued for {} more edges after reaching a boundary/halt at edge {}", log.len() - i - 1, i + 1)));
            }
            if !terminal && last {
                // legitimate only if the instruction can never complete (undefined opcode):
                // clock-stepping on must not reach a boundary or a halt either
                let mut probe = a.clone();
                probe.set_step_mode(StepMode::Real);
                let mut reaches = false;
                for _ in 0..3000 {
                    probe.trigger_key_clock();
                    if probe.is_instruction_done() || probe.state() != State::Running {
                        reaches = true;
                        break;
                    }
                }
                if reaches {
                    return Some(("C11:step-stops-short".into(), format!("the step returned after {} edges without reaching a boundary or a halt", log.len())));
                }
                rep.inc("steps_on_trapped_instruction");
            }
        }
    }
    // (ii) equivalence with single edges
    let mut b = m.clone();
    b.set_step_mode(StepMode::Real);
    for _ in 0..log.len() {
        b.trigger_key_clock();
    }
    a.set_step_mode(StepMode::Real);
    if a != b {
        let what = if a.registers() != b.registers() {
            "registers"
        } else if a.bus() != b.bus() {
            "bus"
        } else if a.state() != b.state() {
            "state"
        } else {
            "sequencer/pipeline state"
        };
        return Some(("C11:step-differs-from-clock-stepping".into(), format!("after one assembly step ({} edges) the machine differs from a clock-stepped clone in: {}", log.len(), what)));
    }
    rep.inc("steps_compared");
    if !d0 && !halted {
        rep.inc("steps_from_mid_instruction");
    }
    if halted {
        rep.inc("steps_from_halted");
    }
    if snap.pending_edge_interrupt {
        rep.inc("steps_with_interrupt_latched");
    }
    if snap.pending_wait_for_memory {
        rep.inc("steps_with_wait_pending");
    }
    rep.class(&[snap.micro_address as u64, halted as u64, snap.pending_wait_for_memory as u64, snap.pending_edge_interrupt as u64]);
    None
}

pub struct Case {
    init: Init,
    /// number of raw edges to run while sampling
    edges: usize,
    /// check a step every `every` edges (1 = every cycle)
    every: usize,
    seed: u64,
    kind: u8,
}

impl Case {
    fn to_json(&self) -> J {
        let mut j = self.init.to_json(0);
        j.set("edges", J::from(self.edges));
        j.set("every", J::from(self.every));
        j.set("seed", J::Int(self.seed as i64));
        j.set("kind", J::from(self.kind));
        j
    }
    fn from_json(j: &J) -> Case {
        let (init, _) = Init::from_json(j);
        let g = |k: &str, d: u64| j.get(k).and_then(|v| v.as_i64()).map(|v| v as u64).unwrap_or(d);
        Case { init, edges: g("edges", 100) as usize, every: g("every", 1).max(1) as usize, seed: g("seed", 0), kind: g("kind", 0) as u8 }
    }
}

fn interrupt_program(rng: &mut Rng) -> Init {
    // JR main ; ISR: INC R2 ; RETI ; main: BITS (F9),#1 ; LDSP #EF; EI ; loop of arithmetic
    let mut p = random_program(rng);
    let head = [0x20, 0x04, 0x46, 0x2C, 0x02, 0x02, 0xFB, 0x01, 0x5F, 0xF9, 0xFB, 0xEF, 0x40, 0x08];
    p.ram[..head.len()].copy_from_slice(&head);
    p.regs[3] = 0;
    p
}

fn run_case(c: &Case, rep: &mut Report) -> Option<V> {
    let template = real::blank_machine();
    let mut m = c.init.build(&template);
    let mut rng = Rng::new(c.seed);
    if rng.chance(1, 2) {
        // hostile but legal external inputs
        m.set_temp(rng.f32_adversarial());
        m.set_analog_input1(rng.f32_adversarial());
        m.set_analog_input2(rng.f32_adversarial());
    }
    match c.kind {
        // sampled states along a run
        0 | 1 => {
            for i in 0..c.edges {
                if i % c.every == 0 {
                    if let Some(v) = check_step(&m, rep) {
                        // a hang on an undefined opcode ends this run (the clock-stepped machine is stuck too)
                        return Some(v);
                    }
                }
                if c.kind == 1 && rng.chance(1, 40) {
                    m.trigger_key_interrupt();
                }
                if m.state() == State::Stopped && rng.chance(1, 4) {
                    m.trigger_key_continue();
                }
                if rng.chance(1, 400) {
                    match rng.below(3) {
                        0 => m.cpu_reset(),
                        1 => m.master_reset(),
                        _ => {
                            // reload: master reset + image, as Machine::load does
                            let again = random_program(&mut rng);
                            m.master_reset();
                            m.raw_mut().bus_mut().memory_mut().copy_from_slice(&again.ram);
                        }
                    }
                    rep.inc("resets_during_sampled_runs");
                }
                real::edge(&mut m);
            }
            None
        }
        // mode switches
        2 => {
            let mut mixed = m.clone();
            let mut raw_edges = 0usize;
            let r = catch(|| {
                for _ in 0..c.edges {
                    if rng.chance(1, 3) {
                        mixed.set_step_mode(StepMode::Assembly);
                    } else {
                        mixed.set_step_mode(StepMode::Real);
                    }
                    verif::arm_edge_log();
                    verif::set_fuel(Some(real::FUEL_PER_INSTRUCTION));
                    mixed.trigger_key_clock();
                    verif::set_fuel(None);
                    raw_edges += verif::take_edge_log().len();
                }
            });
            if let Err(p) = r {
                let _ = verif::take_edge_log();
                if p.is_fuel() {
                    return None; // owned by the termination cases
                }
                return Some((format!("C11:panic:{}", p.site()), p.msg));
            }
            for _ in 0..raw_edges {
                real::edge(&mut m);
            }
            mixed.set_step_mode(StepMode::Real);
            m.set_step_mode(StepMode::Real);
            rep.inc("mode_switch_runs");
            if mixed != m {
                return Some(("C11:mode-switch-alters-computation".into(), format!("after {} raw edges a run with random step-mode switches differs from the pure clock-stepped run", raw_edges)));
            }
            None
        }
        // termination: one step from the first boundary
        _ => {
            rep.inc("termination_cases");
            check_step(&m, rep).or_else(|| {
                // and one more step, now starting at a boundary with the opcode loaded
                let mut n = m.clone();
                real::to_first_boundary(&mut n);
                check_step(&n, rep)
            })
        }
    }
}

fn record(rep: &mut Report, c: &Case) {
    rep.evaluations += 1;
    let r = catch(|| {
        let mut local = Report::new();
        let v = run_case(c, &mut local);
        (v, local)
    });
    match r {
        Ok((v, local)) => {
            rep.merge(local);
            if let Some((sig, what)) = v {
                rep.violate(&sig, what, c.to_json());
            }
        }
        Err(p) => rep.violate(&format!("C11:panic:{}", p.site()), format!("{} at {}:{}", p.msg, p.file, p.line), c.to_json()),
    }
}

pub fn run(ctx: &Ctx) -> Report {
    let n = ctx.size(120_000, 1_500_000) as usize;
    let batches = (n + 9) / 10;
    let term_items = 17; // 1 item for first bytes, 16 for second bytes
    par_items(ctx.threads, term_items + batches, ctx.seed, move |i, seed, rep| {
        let mut rng = Rng::new(seed);
        if i == 0 {
            for b in 0..=255u8 {
                let mut init = Init::zero();
                init.ram[0] = b;
                init.ram[1] = 0x30;
                init.ram[2] = 0x02;
                init.regs = [3, 2, 1, 0, 0, 0xE0];
                record(rep, &Case { init, edges: 0, every: 1, seed: 0, kind: 3 });
            }
            return;
        }
        if i < term_items {
            let first = 0xF0 | (i - 1) as u8;
            for s in 0..=255u8 {
                let mut init = Init::zero();
                init.ram[0] = first;
                // immediate / absolute operand byte where the source form has one
                let mut k = 1;
                if first & 3 == 3 && (first >> 2) & 3 >= 2 {
                    init.ram[1] = 0x40;
                    k = 2;
                }
                init.ram[k] = s;
                init.ram[k + 1] = 0x50;
                init.regs = [0x60, 0x61, 0x62, 0, 0, 0xE0];
                record(rep, &Case { init, edges: 0, every: 1, seed: 0, kind: 3 });
            }
            if first == 0xF5 {
                rep.sample(obj![("kind", "termination: every second byte after a first byte"), ("first", format!("{:#04x}", first)), ("second_bytes", "0..=255"), ("defined_second_bytes", (0..=255u8).filter(|b| second_defined(*b)).count())]);
            }
            return;
        }
        for k in 0..10 {
            let kind = (k % 3) as u8;
            let init = if kind == 1 { interrupt_program(&mut rng) } else { random_program(&mut rng) };
            let short = rng.bool();
            let c = Case {
                init,
                edges: if kind == 2 { 50 + rng.usize(400) } else if short { 60 + rng.usize(200) } else { 500 + rng.usize(3000) },
                every: if kind == 2 || short { 1 } else { 7 + rng.usize(30) },
                seed: rng.next(),
                kind,
            };
            if i == term_items && k < 2 {
                rep.sample(obj![("kind", if kind == 1 { "sampled states, interrupts latched" } else { "sampled states" }), ("program_first_24_bytes", hex(&c.init.ram[..24])), ("edges", c.edges), ("step_checked_every_n_edges", c.every)]);
            }
            record(rep, &c);
        }
    })
}

pub fn replay(_ctx: &Ctx, w: &J) -> Report {
    let mut rep = Report::new();
    let c = Case::from_json(w);
    record(&mut rep, &c);
    rep
}
