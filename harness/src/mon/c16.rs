//! C16 — formatting a parsed program and re-parsing it yields the same program.
use crate::gen::asmtext::{self, Opts};
use crate::json::J;
use crate::report::{Meta, Report};
use crate::rng::Rng;
use crate::util::{catch, par_items};
use crate::{obj, Ctx};
use crate::refmodel::asm::encode;
use emulator_2a_lib::compiler::Translator;
use emulator_2a_lib::parser::{Asm, AsmParser, Instruction, Line};
use std::process::{Command, Stdio};

pub fn meta() -> Meta {
    Meta {
        id: "C16",
        rule: "seeded programs from the grammar generator (every instruction form and operand shape, all numeric values incl. boundaries, labels of any length and case, comments with arbitrary printable and Unicode content, long .DB/.DW lists exceeding the pad width, 0-40 labels, header comments, an eighth of them with a name defined twice) are parsed, rendered with Display and parsed again; the second AST must equal the first, line by line; the same for the translator's listing lines and for the source column of the byte-code listing (Display for ByteCode); and for the program pane of the real interactive session: sampled programs are loaded one after the other through the `load` command (headless driver), alternately under their own file name and under one file name whose content is replaced between the loads, and after every load the pane's lines must parse back to the program that was just loaded. distinct_nontrivial counts distinct (instruction shape, has-comment) line classes that went through the round trip",
        exhaustive: false,
        assumptions: vec!["the rendering under test is `format!(\"{}\", asm)`: header line plus one Display-rendered line per source line (the per-line rendering is what the TUI program pane and byte-code listings show)"],
        floors: vec![("round_trips", 20_000), ("lines_round_tripped", 300_000), ("lines_with_unicode_comment", 5_000), ("long_data_lines", 500), ("programs_with_40_labels", 100), ("listing_round_trips", 5_000), ("byte_code_listing_round_trips", 5_000), ("programs_with_a_name_defined_twice", 10_000), ("pane_loads", 100), ("pane_reloads_of_an_edited_file", 40)],
    }
}

fn shape(l: &Line) -> String {
    let s = match l {
        Line::Empty(c) => format!("Empty/{}", c.is_some()),
        Line::Label(_, c) => format!("Label/{}", c.is_some()),
        Line::Instruction(i, c) => format!("{:?}/{}", i, c.is_some()),
    };
    let mut out = String::new();
    let mut in_str = false;
    for ch in s.chars() {
        if ch == '"' {
            in_str = !in_str;
            continue;
        }
        if in_str {
            continue;
        }
        if ch.is_ascii_digit() {
            if !out.ends_with('#') {
                out.push('#');
            }
        } else {
            out.push(ch);
        }
    }
    out
}

pub fn round_trip(asm: &Asm, rep: &mut Report) -> Option<(String, String)> {
    let rendered = match catch(|| format!("{}", asm)) {
        Ok(s) => s,
        Err(p) => return Some((format!("C16:panic-in-format:{}", p.site()), p.msg)),
    };
    let again = match catch(|| AsmParser::parse(&rendered)) {
        Ok(Ok(a)) => a,
        Ok(Err(e)) => {
            let msg = format!("{}", e);
            let line1 = rendered.lines().next().unwrap_or("");
            let sig = if msg.contains("--> 1:") && line1.starts_with("#! mrasm  ") { "C16:header-padding-rejected".to_string() } else { "C16:rendering-rejected".to_string() };
            return Some((sig, format!("the rendering is not accepted by the parser: {}", msg.lines().take(6).collect::<Vec<_>>().join(" | "))));
        }
        Err(p) => return Some((format!("C16:panic-in-reparse:{}", p.site()), p.msg)),
    };
    if again.comment_after_shebang != asm.comment_after_shebang {
        return Some(("C16:header-comment-differs".into(), format!("header comment {:?} became {:?}", asm.comment_after_shebang, again.comment_after_shebang)));
    }
    if again.lines.len() != asm.lines.len() {
        let sig = if again.lines.len() == asm.lines.len() + 1 && again.lines.last() == Some(&Line::Empty(None)) && again.lines[..asm.lines.len()] == asm.lines[..] {
            "C16:trailing-newline-adds-line"
        } else {
            "C16:line-count-differs"
        };
        return Some((sig.into(), format!("{} lines became {} lines", asm.lines.len(), again.lines.len())));
    }
    for (i, (a, b)) in asm.lines.iter().zip(again.lines.iter()).enumerate() {
        if a != b {
            let kind = match a {
                Line::Instruction(ins, _) => format!("{:?}", ins).split(|c: char| !c.is_alphanumeric()).next().unwrap_or("?").to_string(),
                Line::Label(..) => "Label".into(),
                Line::Empty(_) => "Empty".into(),
            };
            return Some((format!("C16:line-differs:{}", kind), format!("line {}: {:?} was rendered as {:?} and re-parsed as {:?}", i, a, format!("{}", a), b)));
        }
        rep.class_str(&shape(a));
    }
    rep.count("lines_round_tripped", asm.lines.len() as u64);
    // the same through the byte-code listing / TUI program pane: the lines reported by the
    // translator, rendered one by one (only for programs the translator is specified for)
    if encode(asm).is_ok() {
        if let Ok(bc) = catch(|| Translator::compile(asm)) {
            let mut pane = String::from("#! mrasm");
            if let Some(c) = &asm.comment_after_shebang {
                pane.push_str(&format!(" ; {}", c));
            }
            for (l, _) in &bc.lines {
                pane.push('\n');
                pane.push_str(&format!("{}", l));
            }
            // the byte-code listing proper (Display for ByteCode): " <bytes> ; <line>" per source line,
            // an empty line for a line without any text
            match catch(|| format!("{}", bc)) {
                Ok(listing) => {
                    let mut src = String::from("#! mrasm");
                    if let Some(c) = &asm.comment_after_shebang {
                        src.push_str(&format!(" ; {}", c));
                    }
                    let mut n = 0;
                    for l in listing.lines() {
                        // strip colour escapes
                        let mut plain = String::with_capacity(l.len());
                        let mut it = l.chars();
                        while let Some(ch) = it.next() {
                            if ch == '\u{1b}' {
                                for e in it.by_ref() {
                                    if e == 'm' {
                                        break;
                                    }
                                }
                            } else {
                                plain.push(ch);
                            }
                        }
                        src.push('\n');
                        if let Some(p) = plain.find("; ") {
                            src.push_str(&plain[p + 2..]);
                        } else if !plain.trim().is_empty() {
                            return Some(("C16:byte-code-listing-line-without-source".into(), format!("listing line {} has no '; <source>' part: {:?}", n, plain)));
                        }
                        n += 1;
                    }
                    if n != asm.lines.len() {
                        return Some(("C16:byte-code-listing-line-count".into(), format!("the byte-code listing has {} lines for {} source lines", n, asm.lines.len())));
                    }
                    match catch(|| AsmParser::parse(&src)) {
                        Ok(Ok(b)) => {
                            if b.lines != asm.lines {
                                let i = b.lines.iter().zip(asm.lines.iter()).position(|(x, y)| x != y).unwrap_or(0);
                                return Some(("C16:byte-code-listing-differs".into(), format!("line {} of the byte-code listing re-parses as {:?}, the program has {:?}", i, b.lines.get(i), asm.lines.get(i))));
                            }
                            rep.inc("byte_code_listing_round_trips");
                        }
                        Ok(Err(e)) => return Some(("C16:byte-code-listing-rejected".into(), format!("the source column of the byte-code listing is not accepted by the parser: {}", format!("{}", e).lines().take(5).collect::<Vec<_>>().join(" | ")))),
                        Err(p) => return Some((format!("C16:panic-in-reparse:{}", p.site()), p.msg)),
                    }
                }
                Err(p) => return Some((format!("C16:panic-in-format:{}", p.site()), p.msg)),
            }
            match catch(|| AsmParser::parse(&pane)) {
                Ok(Ok(b)) => {
                    if b.lines != asm.lines {
                        let i = b.lines.iter().zip(asm.lines.iter()).position(|(x, y)| x != y).unwrap_or(0);
                        return Some(("C16:listing-line-differs".into(), format!("line {} of the translator's listing re-parses as {:?}, the program has {:?}", i, b.lines.get(i), asm.lines.get(i))));
                    }
                    rep.inc("listing_round_trips");
                }
                Ok(Err(e)) => return Some(("C16:listing-rejected".into(), format!("the translator's listing is not accepted by the parser: {}", format!("{}", e).lines().take(5).collect::<Vec<_>>().join(" | ")))),
                Err(p) => return Some((format!("C16:panic-in-reparse:{}", p.site()), p.msg)),
            }
        }
    }
    None
}

fn unhex(h: &str) -> Option<String> {
    if h.len() % 2 != 0 {
        return None;
    }
    let b: Option<Vec<u8>> = (0..h.len() / 2).map(|i| u8::from_str_radix(h.get(2 * i..2 * i + 2)?, 16).ok()).collect();
    String::from_utf8(b?).ok()
}

/// Loads the programs one after the other in one interactive session and compares the program
/// pane after every load with the program just loaded. Odd positions are loaded under the single
/// name `cur.asm` whose content is replaced before the load, even ones under their own name.
fn pane_session(ctx: &Ctx, texts: &[String], tag: &str, rep: &mut Report) -> Option<(String, String, usize)> {
    let emu = ctx.emu.as_ref()?;
    let dir = ctx.work.join("c16").join(format!("pane-{}", tag));
    let _ = std::fs::create_dir_all(&dir);
    let mut script = String::from("SCRIPT s 100 40\nFUEL 400000\n");
    for (j, t) in texts.iter().enumerate() {
        if std::fs::write(dir.join(format!("p{}.asm", j)), t).is_err() {
            return None;
        }
        let name = if j % 3 == 0 {
            format!("p{}.asm", j)
        } else {
            script.push_str(&format!("COPY p{}.asm cur.asm\n", j));
            "cur.asm".to_string()
        };
        for c in format!("load {}", name).chars() {
            script.push_str(&format!("K c{:x} 0\n", c as u32));
        }
        script.push_str("K enter 0\nPANE\n");
    }
    let sp = dir.join("script.txt");
    if std::fs::write(&sp, script).is_err() {
        return None;
    }
    let out = Command::new(emu).current_dir(&dir).env("VERIF_TUI_SCRIPT", &sp).env("TMPDIR", &dir).env("RUST_BACKTRACE", "0").stdin(Stdio::null()).stdout(Stdio::piped()).stderr(Stdio::null()).output();
    let _ = std::fs::remove_dir_all(&dir);
    let out = match out {
        Ok(o) => o,
        Err(e) => {
            rep.inconclusive(format!("cannot start the session driver: {}", e));
            return None;
        }
    };
    let stdout = String::from_utf8_lossy(&out.stdout).to_string();
    if !stdout.lines().any(|l| l == "DONE") || stdout.lines().any(|l| l.starts_with("DRIVER-ERROR")) {
        rep.inconclusive(format!("session driver did not finish cleanly (status {:?}): {:?}", out.status.code(), stdout.lines().find(|l| l.starts_with("DRIVER-ERROR"))));
        return None;
    }
    if let Some(l) = stdout.lines().find(|l| l.starts_with("PANIC ")) {
        rep.inconclusive(format!("the session panicked while loading an accepted program (C06's subject), pane not observable: {}", l.chars().take(200).collect::<String>()));
        return None;
    }
    let panes: Vec<&str> = stdout.lines().filter(|l| l.starts_with("PANE s ")).collect();
    if panes.len() != texts.len() {
        rep.inconclusive(format!("expected {} PANE lines, got {}", texts.len(), panes.len()));
        return None;
    }
    for (j, (t, l)) in texts.iter().zip(panes.iter()).enumerate() {
        let pane = match l.split(' ').nth(3).and_then(unhex) {
            Some(p) => p,
            None if l.split(' ').count() == 3 || l.ends_with(' ') => String::new(),
            None => {
                rep.inconclusive("unreadable PANE line".into());
                return None;
            }
        };
        let asm = AsmParser::parse(t).ok()?;
        let want: Vec<&Line> = asm.lines.iter().filter(|l| **l != Line::Empty(None)).collect();
        let shown = format!("#! mrasm\n{}", pane);
        let how = if j % 3 == 0 { "under its own name" } else { "under a name whose file was replaced" };
        match catch(|| AsmParser::parse(&shown)) {
            Ok(Ok(b)) => {
                let got: Vec<&Line> = b.lines.iter().filter(|l| **l != Line::Empty(None)).collect();
                if got != want {
                    let i = got.iter().zip(want.iter()).position(|(x, y)| x != y).unwrap_or(got.len().min(want.len()));
                    let sig = if j > 0 && {
                        let prev = AsmParser::parse(&texts[j - 1]).ok()?;
                        let pw: Vec<&Line> = prev.lines.iter().filter(|l| **l != Line::Empty(None)).collect();
                        pw == got
                    } {
                        "C16:pane-shows-previous-program"
                    } else {
                        "C16:pane-line-differs"
                    };
                    return Some((sig.into(), format!("program #{} of the session (loaded {}): pane line {} parses as {:?}, the loaded program has {:?}", j, how, i, got.get(i), want.get(i)), j + 1));
                }
            }
            Ok(Err(e)) => return Some(("C16:pane-rejected".into(), format!("program #{} of the session (loaded {}): the pane text is not accepted by the parser: {}", j, how, format!("{}", e).lines().take(5).collect::<Vec<_>>().join(" | ")), j + 1)),
            Err(p) => return Some((format!("C16:panic-in-reparse:{}", p.site()), p.msg, j + 1)),
        }
        rep.inc("pane_loads");
        if j % 3 != 0 && j > 1 {
            rep.inc("pane_reloads_of_an_edited_file");
        }
    }
    None
}

pub fn run(ctx: &Ctx) -> Report {
    let n = ctx.size(800_000, 8_000_000) as usize;
    let batches = (n + 199) / 200;
    let pane_every = (batches / (ctx.size(24, 500) as usize).max(1)).max(1);
    par_items(ctx.threads, batches, ctx.seed, move |i, seed, rep| {
        let mut rng = Rng::new(seed);
        let mut opts = Opts::parser();
        let mut for_pane: Vec<String> = vec![];
        for k in 0..200 {
            opts.max_lines = if k % 10 == 0 { 80 } else { 30 };
            let mut g = asmtext::program(&mut rng, &opts);
            if k % 8 == 5 {
                // a name defined a second time (same spelling, other case, label after .EQU): which
                // definition a reference gets is nobody's business here, but every line must still be
                // rendered and listed
                let n = format!("again_{}", rng.below(30));
                let a = match rng.below(3) {
                    0 => format!("{}:", n),
                    1 => format!("{}: ; first {}", n.to_uppercase(), n),
                    _ => format!(".EQU {} {}", n, rng.u8()),
                };
                let b = match rng.below(3) {
                    0 => format!("{}: ; second", n),
                    1 => format!("{}:", n.to_uppercase()),
                    _ => format!("{}:;;; x ;", n),
                };
                g.text.push_str(&format!("\n{}\n NOP\n{}\n JR {}\n", a, b, n));
                rep.inc("programs_with_a_name_defined_twice");
            }
            rep.evaluations += 1;
            let asm = match catch(|| AsmParser::parse(&g.text)) {
                Ok(Ok(a)) => a,
                Ok(Err(_)) => {
                    rep.inc("generated_program_rejected");
                    continue;
                }
                Err(_) => {
                    rep.inc("parser_panicked");
                    continue;
                }
            };
            for l in &asm.lines {
                let c = match l {
                    Line::Empty(c) | Line::Label(_, c) | Line::Instruction(_, c) => c,
                };
                if c.as_ref().map(|c| !c.is_ascii()).unwrap_or(false) {
                    rep.inc("lines_with_unicode_comment");
                }
                if let Line::Instruction(Instruction::AsmDefineBytes(v), _) = l {
                    if v.len() > 8 {
                        rep.inc("long_data_lines");
                    }
                }
            }
            let labels = asm.lines.iter().filter(|l| matches!(l, Line::Label(..) | Line::Instruction(Instruction::AsmEquals(..), _))).count();
            if labels == 40 {
                rep.inc("programs_with_40_labels");
            }
            match round_trip(&asm, rep) {
                Some((sig, what)) => rep.violate(&sig, what, obj![("text", g.text.clone())]),
                None => rep.inc("round_trips"),
            }
            if i % pane_every == 0 && for_pane.len() < 10 && k % 7 == 0 && encode(&asm).is_ok() {
                for_pane.push(g.text.clone());
            }
            if i == 0 && k == 3 {
                rep.sample(obj![("source_text", g.text.clone()), ("rendering", format!("{}", asm))]);
            }
        }
        if for_pane.len() > 1 {
            if let Some((sig, what, upto)) = pane_session(ctx, &for_pane, &format!("{}", i), rep) {
                rep.violate(&sig, what, obj![("pane_session", J::Arr(for_pane.iter().take(upto).map(|t| J::from(t.clone())).collect()))]);
            }
        }
    })
}

pub fn replay(ctx: &Ctx, w: &J) -> Report {
    let mut rep = Report::new();
    rep.evaluations = 1;
    if let Some(a) = w.get("pane_session").and_then(|a| a.as_arr()) {
        let texts: Vec<String> = a.iter().filter_map(|t| t.as_str().map(|s| s.to_string())).collect();
        if let Some((sig, what, _)) = pane_session(ctx, &texts, "replay", &mut rep) {
            rep.violate(&sig, what, w.clone());
        }
        return rep;
    }
    let text = w.get("text").and_then(|t| t.as_str()).unwrap_or("");
    match catch(|| AsmParser::parse(text)) {
        Ok(Ok(asm)) => {
            if let Some((sig, what)) = round_trip(&asm, &mut rep) {
                rep.violate(&sig, what, obj![("text", text)]);
            }
        }
        _ => rep.inconclusive("replay text is not accepted by the parser".into()),
    }
    rep
}
