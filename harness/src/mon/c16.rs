//! C16 — formatting a parsed program and re-parsing it yields the same program.
use crate::gen::asmtext::{self, Opts};
use crate::json::J;
use crate::report::{Meta, Report};
use crate::rng::Rng;
use crate::util::{catch, par_items};
use crate::{obj, Ctx};
use crate::refmodel::asm::encode;
use emulator_2a_lib::compiler::Translator;
use emulator_2a_lib::parser::{Asm, AsmParser, Instruction, Line};

pub fn meta() -> Meta {
    Meta {
        id: "C16",
        rule: "seeded programs from the grammar generator (every instruction form and operand shape, all numeric values incl. boundaries, labels of any length and case, comments with arbitrary printable and Unicode content, long .DB/.DW lists exceeding the pad width, 0-40 labels, header comments) are parsed, rendered with Display and parsed again; the second AST must equal the first, line by line. distinct_nontrivial counts distinct (instruction shape, has-comment) line classes that went through the round trip",
        exhaustive: false,
        assumptions: vec!["the rendering under test is `format!(\"{}\", asm)`: header line plus one Display-rendered line per source line (the per-line rendering is what the TUI program pane and byte-code listings show)"],
        floors: vec![("round_trips", 20_000), ("lines_round_tripped", 300_000), ("lines_with_unicode_comment", 5_000), ("long_data_lines", 500), ("programs_with_40_labels", 100), ("listing_round_trips", 5_000)],
    }
}

fn shape(l: &Line) -> String {
    let s = match l {
        Line::Empty(c) => format!("Empty/{}", c.is_some()),
        Line::Label(_, c) => format!("Label/{}", c.is_some()),
        Line::Instruction(i, c) => format!("{:?}/{}", i, c.is_some()),
    };
    let mut out = String::new();
    let mut in_str = false;
    for ch in s.chars() {
        if ch == '"' {
            in_str = !in_str;
            continue;
        }
        if in_str {
            continue;
        }
        if ch.is_ascii_digit() {
            if !out.ends_with('#') {
                out.push('#');
            }
        } else {
            out.push(ch);
        }
    }
    out
}

pub fn round_trip(asm: &Asm, rep: &mut Report) -> Option<(String, String)> {
    let rendered = match catch(|| format!("{}", asm)) {
        Ok(s) => s,
        Err(p) => return Some((format!("C16:panic-in-format:{}", p.site()), p.msg)),
    };
    let again = match catch(|| AsmParser::parse(&rendered)) {
        Ok(Ok(a)) => a,
        Ok(Err(e)) => {
            let msg = format!("{}", e);
            let line1 = rendered.lines().next().unwrap_or("");
            let sig = if msg.contains("--> 1:") && line1.starts_with("#! mrasm  ") { "C16:header-padding-rejected".to_string() } else { "C16:rendering-rejected".to_string() };
            return Some((sig, format!("the rendering is not accepted by the parser: {}", msg.lines().take(6).collect::<Vec<_>>().join(" | "))));
        }
        Err(p) => return Some((format!("C16:panic-in-reparse:{}", p.site()), p.msg)),
    };
    if again.comment_after_shebang != asm.comment_after_shebang {
        return Some(("C16:header-comment-differs".into(), format!("header comment {:?} became {:?}", asm.comment_after_shebang, again.comment_after_shebang)));
    }
    if again.lines.len() != asm.lines.len() {
        let sig = if again.lines.len() == asm.lines.len() + 1 && again.lines.last() == Some(&Line::Empty(None)) && again.lines[..asm.lines.len()] == asm.lines[..] {
            "C16:trailing-newline-adds-line"
        } else {
            "C16:line-count-differs"
        };
        return Some((sig.into(), format!("{} lines became {} lines", asm.lines.len(), again.lines.len())));
    }
    for (i, (a, b)) in asm.lines.iter().zip(again.lines.iter()).enumerate() {
        if a != b {
            let kind = match a {
                Line::Instruction(ins, _) => format!("{:?}", ins).split(|c: char| !c.is_alphanumeric()).next().unwrap_or("?").to_string(),
                Line::Label(..) => "Label".into(),
                Line::Empty(_) => "Empty".into(),
            };
            return Some((format!("C16:line-differs:{}", kind), format!("line {}: {:?} was rendered as {:?} and re-parsed as {:?}", i, a, format!("{}", a), b)));
        }
        rep.class_str(&shape(a));
    }
    rep.count("lines_round_tripped", asm.lines.len() as u64);
    // the same through the byte-code listing / TUI program pane: the lines reported by the
    // translator, rendered one by one (only for programs the translator is specified for)
    if encode(asm).is_ok() {
        if let Ok(bc) = catch(|| Translator::compile(asm)) {
            let mut pane = String::from("#! mrasm");
            if let Some(c) = &asm.comment_after_shebang {
                pane.push_str(&format!(" ; {}", c));
            }
            for (l, _) in &bc.lines {
                pane.push('\n');
                pane.push_str(&format!("{}", l));
            }
            match catch(|| AsmParser::parse(&pane)) {
                Ok(Ok(b)) => {
                    if b.lines != asm.lines {
                        let i = b.lines.iter().zip(asm.lines.iter()).position(|(x, y)| x != y).unwrap_or(0);
                        return Some(("C16:listing-line-differs".into(), format!("line {} of the translator's listing re-parses as {:?}, the program has {:?}", i, b.lines.get(i), asm.lines.get(i))));
                    }
                    rep.inc("listing_round_trips");
                }
                Ok(Err(e)) => return Some(("C16:listing-rejected".into(), format!("the translator's listing is not accepted by the parser: {}", format!("{}", e).lines().take(5).collect::<Vec<_>>().join(" | ")))),
                Err(p) => return Some((format!("C16:panic-in-reparse:{}", p.site()), p.msg)),
            }
        }
    }
    None
}

pub fn run(ctx: &Ctx) -> Report {
    let n = ctx.size(400_000, 8_000_000) as usize;
    let batches = (n + 199) / 200;
    par_items(ctx.threads, batches, ctx.seed, move |i, seed, rep| {
        let mut rng = Rng::new(seed);
        let mut opts = Opts::parser();
        for k in 0..200 {
            opts.max_lines = if k % 10 == 0 { 80 } else { 30 };
            let g = asmtext::program(&mut rng, &opts);
            rep.evaluations += 1;
            let asm = match catch(|| AsmParser::parse(&g.text)) {
                Ok(Ok(a)) => a,
                Ok(Err(_)) => {
                    rep.inc("generated_program_rejected");
                    continue;
                }
                Err(_) => {
                    rep.inc("parser_panicked");
                    continue;
                }
            };
            for l in &asm.lines {
                let c = match l {
                    Line::Empty(c) | Line::Label(_, c) | Line::Instruction(_, c) => c,
                };
                if c.as_ref().map(|c| !c.is_ascii()).unwrap_or(false) {
                    rep.inc("lines_with_unicode_comment");
                }
                if let Line::Instruction(Instruction::AsmDefineBytes(v), _) = l {
                    if v.len() > 8 {
                        rep.inc("long_data_lines");
                    }
                }
            }
            let labels = asm.lines.iter().filter(|l| matches!(l, Line::Label(..) | Line::Instruction(Instruction::AsmEquals(..), _))).count();
            if labels == 40 {
                rep.inc("programs_with_40_labels");
            }
            match round_trip(&asm, rep) {
                Some((sig, what)) => rep.violate(&sig, what, obj![("text", g.text.clone())]),
                None => rep.inc("round_trips"),
            }
            if i == 0 && k == 3 {
                rep.sample(obj![("source_text", g.text.clone()), ("rendering", format!("{}", asm))]);
            }
        }
    })
}

pub fn replay(_ctx: &Ctx, w: &J) -> Report {
    let mut rep = Report::new();
    rep.evaluations = 1;
    let text = w.get("text").and_then(|t| t.as_str()).unwrap_or("");
    match catch(|| AsmParser::parse(text)) {
        Ok(Ok(asm)) => {
            if let Some((sig, what)) = round_trip(&asm, &mut rep) {
                rep.violate(&sig, what, obj![("text", text)]);
            }
        }
        _ => rep.inconclusive("replay text is not accepted by the parser".into()),
    }
    rep
}
