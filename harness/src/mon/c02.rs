//! C02 — assembler output equals the reference encoding, layout and label
//! resolution. Differential: real Translator vs refmodel::asm, per line.
use crate::gen::asmtext::{self, Opts};
use crate::json::J;
use crate::refmodel::asm::{encode, Unencodable};
use crate::refmodel::grammar::{recognise, Verdict};
use crate::report::{Meta, Report};
use crate::rng::Rng;
use crate::util::{catch, hex, par_items};
use crate::{obj, Ctx};
use emulator_2a_lib::compiler::Translator;
use emulator_2a_lib::parser::{Asm, AsmParser, Constant, Destination, Instruction, Line, MemAddress, Register, RegisterDdi, RegisterDi, Source};

pub fn meta() -> Meta {
    Meta {
        id: "C02",
        rule: "(a) every instruction form x operand shape x register (enumerated exhaustively, about 2 300 shapes incl. number and label operands) is placed after a seeded random prefix of directives (.ORG forward, .BYTE n, .DB, .DW, .EQU, label definitions) and followed by a random suffix, with forward/backward/mixed-case label references; (b) seeded random multi-line programs from the grammar generator (text -> real parser -> real translator). The translator's per-line byte groups, reported lines, *STACKSIZE/*PROGRAMSIZE and the concatenated image are compared with the reference encoder; for (b) the image assembled from the text is also compared with the reference encoding of the program the generator wrote, so a line that the parser reads as another instruction shows as a wrong image. distinct_nontrivial counts distinct (instruction shape, preceding-layout class) pairs whose bytes were compared",
        exhaustive: false,
        assumptions: vec!["refmodel::asm is the documented encoding (instruction table + statement of C02)", "programs outside the quantifier (image > 240 bytes, backward .ORG) are not generated here; C06 owns them"],
        floors: vec![("texts_checked_against_written_program", 100_000), ("long_sources", 2_000), ("sources_with_similar_long_names", 2_000), ("shapes_enumerated", 2_000), ("shape_programs_compared", 20_000), ("random_programs_compared", 5_000), ("label_refs_after_byte_or_org", 1_000), ("mixed_case_refs", 1_000), ("relative_jumps_backward", 30), ("relative_jumps_forward", 30)],
    }
}

const R: [Register; 4] = [Register::R0, Register::R1, Register::R2, Register::R3];

fn sources(lab: &str) -> Vec<Source> {
    let mut v = vec![];
    for r in R.iter() {
        v.push(Source::Register(*r));
        v.push(Source::MemAddress(MemAddress::Register(*r)));
        v.push(Source::RegisterDi(RegisterDi(*r)));
        v.push(Source::RegisterDdi(RegisterDdi(*r)));
    }
    v.push(Source::Constant(Constant::Constant(0xA5)));
    v.push(Source::Constant(Constant::Label(lab.to_string())));
    v.push(Source::MemAddress(MemAddress::Constant(Constant::Constant(0x3C))));
    v.push(Source::MemAddress(MemAddress::Constant(Constant::Label(lab.to_string()))));
    v
}

fn destinations(lab: &str) -> Vec<Destination> {
    let mut v = vec![];
    for r in R.iter() {
        v.push(Destination::Register(*r));
        v.push(Destination::MemAddress(MemAddress::Register(*r)));
        v.push(Destination::RegisterDi(RegisterDi(*r)));
        v.push(Destination::RegisterDdi(RegisterDdi(*r)));
    }
    v.push(Destination::MemAddress(MemAddress::Constant(Constant::Constant(0xC3))));
    v.push(Destination::MemAddress(MemAddress::Constant(Constant::Label(lab.to_string()))));
    v
}

/// Every instruction form x operand shape x register; `lab`/`lab2` are label
/// names used in operands (spelled as given).
pub fn all_shapes(lab: &str, lab2: &str) -> Vec<Instruction> {
    use Instruction::*;
    let mut v = vec![];
    for r in R.iter() {
        for f in [Clr as fn(Register) -> Instruction, Inc, Neg, Com, Tst, Lsr, Asr, Lsl, Rrc, Rlc, Push, Pop].iter() {
            v.push(f(*r));
        }
        for s in R.iter() {
            for f in [Add as fn(Register, Register) -> Instruction, Adc, Sub, Mul, Div, And, Or, Xor].iter() {
                v.push(f(*r, *s));
            }
        }
        v.push(LdConstant(*r, Constant::Constant(0x5A)));
        v.push(LdConstant(*r, Constant::Label(lab.to_string())));
        for m in [MemAddress::Register(R[0]), MemAddress::Register(R[1]), MemAddress::Register(R[2]), MemAddress::Register(R[3]), MemAddress::Constant(Constant::Constant(0x99)), MemAddress::Constant(Constant::Label(lab2.to_string()))].iter() {
            v.push(LdMemAddress(*r, m.clone()));
            v.push(St(m.clone(), *r));
        }
    }
    for s in sources(lab) {
        v.push(Dec(s.clone()));
        v.push(Ldsp(s.clone()));
        v.push(Ldfr(s.clone()));
        for d in destinations(lab2) {
            v.push(Mov(d.clone(), s.clone()));
            v.push(Cmp(d.clone(), s.clone()));
            v.push(Bitt(d.clone(), s.clone()));
            v.push(Bits(d.clone(), s.clone()));
            v.push(Bitc(d, s.clone()));
        }
    }
    for f in [Jmp as fn(String) -> Instruction, Jcs, Jcc, Jzs, Jzc, Jns, Jnc, Jr, Call].iter() {
        v.push(f(lab.to_string()));
        v.push(f(lab2.to_string()));
    }
    v.extend(vec![PushF, PopF, Ret, RetI, Stop, Nop, Ei, Di]);
    v
}

fn kind_name(i: &Instruction) -> String {
    let d = format!("{:?}", i);
    d.split(|c: char| !c.is_alphanumeric()).next().unwrap_or("?").to_string()
}

struct Stats {
    after_byte_org: bool,
    mixed_case: bool,
}

/// Compare the real translator with the reference on one AST.
fn compare(asm: &Asm, rep: &mut Report, layout_class: u64, stats: &Stats) -> Option<(String, String)> {
    let exp = match encode(asm) {
        Ok(e) => e,
        Err(Unencodable::UndefinedLabel(l)) => return Some(("C02:generator-bug".into(), format!("undefined label {} in a generated program", l))),
        Err(_) => {
            rep.inc("outside_quantifier_skipped");
            return None;
        }
    };
    let real = match catch(|| Translator::compile(asm)) {
        Ok(b) => b,
        Err(p) => return Some((format!("C02:panic:{}", p.site()), format!("translator panicked: {}", p.msg))),
    };
    if real.lines.len() != asm.lines.len() {
        return Some(("C02:line-count".into(), format!("{} lines reported for {} source lines", real.lines.len(), asm.lines.len())));
    }
    for (i, ((line, bytes), exp_bytes)) in real.lines.iter().zip(exp.lines.iter()).enumerate() {
        if line != &asm.lines[i] {
            return Some(("C02:line-report".into(), format!("line {} reported as {:?}, source line is {:?}", i, line, asm.lines[i])));
        }
        if bytes != exp_bytes {
            let kind = match &asm.lines[i] {
                Line::Instruction(ins, _) => kind_name(ins),
                _ => "non-instruction".into(),
            };
            return Some((format!("C02:line-bytes:{}", kind), format!("line {} ({:?}) produced [{}], reference encoding is [{}]", i, asm.lines[i], hex(bytes), hex(exp_bytes))));
        }
        if let Line::Instruction(ins, _) = &asm.lines[i] {
            rep.class_str(&format!("{:?}|{}", ins_shape(ins), layout_class));
        }
    }
    let image: Vec<u8> = real.bytes().cloned().collect();
    let exp_image: Vec<u8> = exp.lines.iter().flatten().cloned().collect();
    if image != exp_image {
        return Some(("C02:image".into(), "concatenated image differs although all lines agree".into()));
    }
    if real.stacksize != exp.stacksize {
        return Some(("C02:stacksize".into(), format!("stacksize {:?}, expected {:?}", real.stacksize, exp.stacksize)));
    }
    if real.programsize != exp.programsize {
        return Some(("C02:programsize".into(), format!("programsize {:?}, expected {:?}", real.programsize, exp.programsize)));
    }
    if stats.after_byte_org {
        rep.inc("label_refs_after_byte_or_org");
    }
    if stats.mixed_case {
        rep.inc("mixed_case_refs");
    }
    None
}

/// Shape without concrete values (for distinct counting).
fn ins_shape(i: &Instruction) -> String {
    let s = format!("{:?}", i);
    s.chars().map(|c| if c.is_ascii_digit() { '#' } else { c }).collect::<String>().replace("##", "#").replace("##", "#")
}

fn shape_program(rng: &mut Rng, ins: &Instruction, l1: &str, l2: &str) -> (Asm, Stats) {
    // definitions of l1 / l2 are placed before or after the instruction; references use another letter case sometimes
    let mut lines: Vec<Line> = vec![];
    let mut prefix: Vec<Line> = vec![];
    let mut addr = 0usize;
    let mut after_byte_org = false;
    let n = rng.usize(5);
    for _ in 0..n {
        let l = match rng.below(6) {
            0 => {
                let a = addr + rng.usize(20);
                addr = a;
                after_byte_org = true;
                Instruction::AsmOrigin(a as u8)
            }
            1 => {
                let k = rng.below(9) as u8;
                addr += k as usize;
                after_byte_org |= k > 0;
                Instruction::AsmByte(k)
            }
            2 => {
                let k = 1 + rng.usize(4);
                addr += k;
                Instruction::AsmDefineBytes((0..k).map(|_| rng.u8()).collect())
            }
            3 => {
                let k = 1 + rng.usize(3);
                addr += 2 * k;
                Instruction::AsmDefineWords((0..k).map(|_| rng.next() as u16).collect())
            }
            4 => Instruction::AsmEquals(format!("k{}_{}", rng.below(1000), lines.len()), rng.u8()),
            _ => {
                addr += 1;
                Instruction::Nop
            }
        };
        prefix.push(Line::Instruction(l, if rng.chance(1, 4) { Some("c".into()) } else { None }));
    }
    let def1_before = rng.bool();
    let def2_before = rng.bool();
    let def = |name: &str, rng: &mut Rng| {
        if rng.chance(1, 5) {
            Line::Instruction(Instruction::AsmEquals(name.to_string(), rng.u8()), None)
        } else {
            Line::Label(name.to_string(), None)
        }
    };
    lines.extend(prefix);
    if def1_before {
        lines.push(def(l1, rng));
    }
    if def2_before {
        lines.push(def(l2, rng));
    }
    lines.push(Line::Instruction(ins.clone(), None));
    // suffix
    for _ in 0..rng.usize(3) {
        lines.push(Line::Instruction(if rng.bool() { Instruction::AsmByte(rng.below(5) as u8) } else { Instruction::Inc(R[rng.usize(4)]) }, None));
    }
    if !def1_before {
        lines.push(def(l1, rng));
    }
    if !def2_before {
        lines.push(def(l2, rng));
    }
    (Asm { comment_after_shebang: None, lines }, Stats { after_byte_org, mixed_case: false })
}

fn witness(asm: &Asm, text: Option<&str>) -> J {
    obj![("ast", format!("{:?}", asm)), ("text", text.unwrap_or("")), ("rendered", asm.lines.iter().map(|l| format!("{}", l)).collect::<Vec<_>>())]
}

/// 260-700 source lines, most of them without bytes (comments, empty lines, directives), a few
/// labels near the top and the bottom, and references to them on lines far beyond line 255.
fn long_source(rng: &mut Rng) -> String {
    let mut t = String::from("#! mrasm\ntop:\n NOP\nsecond: ; near the top\n .EQU k 7\n");
    let pad = 255 + rng.usize(450);
    for j in 0..pad {
        match rng.below(6) {
            0 => t.push('\n'),
            1 => t.push_str(&format!("; line {}\n", j)),
            2 => t.push_str("    ; indented comment\n"),
            3 => t.push_str(&format!("*STACKSIZE {}\n", [0, 16, 32, 48, 64][rng.usize(5)])),
            4 => t.push_str(&format!("; note {} --\n", j)),
            _ => t.push_str(" \t \n"),
        }
    }
    t.push_str("late:\n");
    let n = 4 + rng.usize(12);
    for _ in 0..n {
        let l = *rng.pick(&["top", "second", "late", "end", "TOP", "k", "Late", "End"]);
        match rng.below(8) {
            0 => t.push_str(&format!(" JR {}\n", l)),
            1 => t.push_str(&format!(" CALL {}\n", l)),
            2 => t.push_str(&format!(" JMP {}\n", l)),
            3 => t.push_str(&format!(" LD R1, ({})\n", l)),
            4 => t.push_str(&format!(" ST ({}), R2\n", l)),
            5 => t.push_str(&format!(" JZS {}\n", l)),
            6 => t.push_str(&format!(" LD R0, {}\n", l)),
            _ => t.push_str("\n; in between\n"),
        }
    }
    t.push_str("end:\n .DB 1, 2\n");
    t
}

/// Labels and .EQU names of 12-40 characters that share all but their last characters.
fn similar_names_source(rng: &mut Rng) -> String {
    let stem: String = (0..(11 + rng.usize(28))).map(|i| (b'a' + ((i * 7 + 3) % 26) as u8) as char).collect();
    let names: Vec<String> = vec![format!("{}_a", stem), format!("{}_b", stem), format!("{}x", stem), stem.clone(), format!("{}_a1", stem)];
    let mut t = String::from("#! mrasm\n");
    t.push_str(&format!("{}:\n NOP\n", names[0]));
    t.push_str(&format!(" .EQU {} {}\n", names[2], 100 + rng.below(100)));
    t.push_str(&format!("{}: ; second\n INC R0\n INC R1\n", names[1].to_uppercase()));
    t.push_str(&format!(" .EQU {} {}\n", names[4], rng.below(100)));
    for _ in 0..(4 + rng.usize(8)) {
        let l = &names[rng.usize(5)];
        let l = if rng.bool() { l.to_uppercase() } else { l.clone() };
        match rng.below(5) {
            0 => t.push_str(&format!(" JR {}\n", l)),
            1 => t.push_str(&format!(" CALL {}\n", l)),
            2 => t.push_str(&format!(" LD R1, ({})\n", l)),
            3 => t.push_str(&format!(" LD R2, {}\n", l)),
            _ => t.push_str(&format!(" JMP {}\n", l)),
        }
    }
    t.push_str(&format!("{}:\n STOP\n", names[3]));
    t
}

pub fn run(ctx: &Ctx) -> Report {
    let rounds = ctx.size(200, 900) as usize;
    let random_programs = ctx.size(1_500_000, 20_000_000) as usize;
    let batches = (random_programs + 199) / 200;
    par_items(ctx.threads, rounds + batches, ctx.seed, move |i, seed, rep| {
        let mut rng = Rng::new(seed);
        if i < rounds {
            // definitions in one case, references possibly in another
            let (d1, d2) = ("Loop_a", "dataB");
            let variants = [("Loop_a", "dataB"), ("LOOP_A", "DATAB"), ("loop_a", "datab")];
            let (r1, r2) = variants[i % 3];
            let shapes = all_shapes(r1, r2);
            if i == 0 {
                rep.count("shapes_enumerated", shapes.len() as u64);
                rep.sample(obj![("kind", "exhaustive shape enumeration"), ("shapes", shapes.len()), ("first", format!("{:?}", shapes[0])), ("last", format!("{:?}", shapes[shapes.len() - 1]))]);
            }
            for ins in shapes.iter() {
                let (asm, mut st) = shape_program(&mut rng, ins, d1, d2);
                st.mixed_case = i % 3 != 0;
                rep.evaluations += 1;
                let layout_class = st.after_byte_org as u64;
                match compare(&asm, rep, layout_class, &st) {
                    Some((sig, what)) => rep.violate(&sig, what, witness(&asm, None)),
                    None => rep.inc("shape_programs_compared"),
                }
                // relative jump direction accounting
                if let Instruction::Jr(_) | Instruction::Jcs(_) | Instruction::Jzc(_) | Instruction::Jcc(_) | Instruction::Jzs(_) | Instruction::Jns(_) | Instruction::Jnc(_) = ins {
                    let pos_ins = asm.lines.iter().position(|l| matches!(l, Line::Instruction(x, _) if x == ins)).unwrap_or(0);
                    let name = match ins {
                        Instruction::Jr(l) | Instruction::Jcs(l) | Instruction::Jzc(l) | Instruction::Jcc(l) | Instruction::Jzs(l) | Instruction::Jns(l) | Instruction::Jnc(l) => l.to_lowercase(),
                        _ => String::new(),
                    };
                    let pos_def = asm.lines.iter().position(|l| matches!(l, Line::Label(x, _) if x.to_lowercase() == name));
                    if let Some(pd) = pos_def {
                        if pd < pos_ins {
                            rep.inc("relative_jumps_backward");
                        } else {
                            rep.inc("relative_jumps_forward");
                        }
                    }
                }
            }
            return;
        }
        let opts = Opts::layout();
        for k in 0..200 {
            let mut g = asmtext::program(&mut rng, &opts);
            if k % 50 == 17 {
                // a long source: hundreds of lines without bytes, references far down the file
                g.text = long_source(&mut rng);
                g.asm = match recognise(&g.text) {
                    Verdict::Accept(a) => a,
                    other => {
                        rep.inconclusive(format!("harness bug: long source not accepted by the reference grammar: {:?}", format!("{:?}", other).chars().take(200).collect::<String>()));
                        continue;
                    }
                };
                rep.inc("long_sources");
            } else if k % 50 == 33 {
                // names that only differ after many characters
                g.text = similar_names_source(&mut rng);
                g.asm = match recognise(&g.text) {
                    Verdict::Accept(a) => a,
                    other => {
                        rep.inconclusive(format!("harness bug: similar-names source not accepted by the reference grammar: {:?}", format!("{:?}", other).chars().take(200).collect::<String>()));
                        continue;
                    }
                };
                rep.inc("sources_with_similar_long_names");
            }
            rep.evaluations += 1;
            let parsed = match catch(|| AsmParser::parse(&g.text)) {
                Ok(Ok(a)) => a,
                Ok(Err(e)) => {
                    rep.violate("C02:generated-program-rejected", format!("a generated valid program was rejected: {}", e), obj![("text", g.text.clone())]);
                    continue;
                }
                Err(p) => {
                    rep.violate(&format!("C02:panic:{}", p.site()), format!("parser panicked: {}", p.msg), obj![("text", g.text.clone())]);
                    continue;
                }
            };
            let has_byte_org = parsed.lines.iter().any(|l| matches!(l, Line::Instruction(Instruction::AsmByte(n), _) if *n > 0) || matches!(l, Line::Instruction(Instruction::AsmOrigin(_), _)));
            let has_refs = g.text.contains("J") || g.text.contains("j");
            let st = Stats { after_byte_org: has_byte_org && has_refs, mixed_case: false };
            match compare(&parsed, rep, 2 + has_byte_org as u64, &st) {
                Some((sig, what)) => rep.violate(&sig, what, witness(&parsed, Some(&g.text))),
                None => rep.inc("random_programs_compared"),
            }
            // the image is a function of the source *text*: where the parser's reading differs from
            // what the generator wrote, the reference encoding of the written program decides
            rep.inc("texts_checked_against_written_program");
            if parsed.lines.iter().filter(|l| **l != Line::Empty(None)).ne(g.asm.lines.iter().filter(|l| **l != Line::Empty(None))) {
                if let (Ok(e), Ok(real)) = (encode(&g.asm), catch(|| Translator::compile(&parsed))) {
                    let want: Vec<u8> = e.lines.iter().flatten().copied().collect();
                    let got: Vec<u8> = real.bytes().copied().collect();
                    if want != got || real.stacksize != e.stacksize || real.programsize != e.programsize {
                        let at = want.iter().zip(got.iter()).position(|(a, b)| a != b).unwrap_or(want.len().min(got.len()));
                        rep.violate("C02:image-of-text-differs", format!("the image assembled from the text differs from the reference encoding of the written program at byte {:#04x}: [{}] vs reference [{}]", at, hex(&got[at.min(got.len())..(at + 4).min(got.len())]), hex(&want[at.min(want.len())..(at + 4).min(want.len())])), obj![("text", g.text.clone())]);
                    }
                }
            }
            if i == rounds && k == 0 {
                rep.sample(obj![("kind", "random program"), ("text", g.text.clone())]);
            }
        }
    })
}

pub fn replay(_ctx: &Ctx, w: &J) -> Report {
    let mut rep = Report::new();
    rep.evaluations = 1;
    let text = w.get("text").and_then(|t| t.as_str()).unwrap_or("");
    // shape programs are replayed through their rendered text (header added)
    let text = if text.is_empty() {
        let lines: Vec<String> = w.get("rendered").and_then(|r| r.as_arr()).map(|a| a.iter().filter_map(|x| x.as_str()).map(|s| s.to_string()).collect()).unwrap_or_default();
        format!("#! mrasm\n{}", lines.join("\n"))
    } else {
        text.to_string()
    };
    match catch(|| AsmParser::parse(&text)) {
        Ok(Ok(asm)) => {
            if let Some((sig, what)) = compare(&asm, &mut rep, 9, &Stats { after_byte_org: false, mixed_case: false }) {
                rep.violate(&sig, what, witness(&asm, Some(&text)));
            }
            // the written program, as the reference grammar reads the text
            if let crate::refmodel::grammar::Verdict::Accept(written) = crate::refmodel::grammar::recognise(&text) {
                if let (Ok(e), Ok(real)) = (encode(&written), catch(|| Translator::compile(&asm))) {
                    let want: Vec<u8> = e.lines.iter().flatten().copied().collect();
                    let got: Vec<u8> = real.bytes().copied().collect();
                    if want != got || real.stacksize != e.stacksize || real.programsize != e.programsize {
                        rep.violate("C02:image-of-text-differs", "the image assembled from the text differs from the reference encoding of the written program".into(), obj![("text", text.clone())]);
                    }
                }
            }
        }
        Ok(Err(e)) => rep.inconclusive(format!("replay text does not parse: {}", e)),
        Err(p) => rep.violate(&format!("C02:panic:{}", p.site()), p.msg, obj![("text", text)]),
    }
    rep
}
