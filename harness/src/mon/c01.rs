//! C01 — the CPU executes every emittable instruction exactly per the
//! instruction set. Differential at instruction boundaries against
//! `refmodel::isa`.
use crate::json::J;
use crate::real::{self, Adv};
use crate::refmodel::isa::{self, BusModel, Class, Cpu, Outcome};
use crate::report::{Meta, Report};
use crate::rng::Rng;
use crate::util::{catch, hex, par_items};
use crate::{obj, Ctx};
use emulator_2a_lib::machine::{Bus, Machine, State};

pub fn meta() -> Meta {
    Meta {
        id: "C01",
        rule: "single-instruction tier: every register-register ALU opcode (ADD ADC SUB AND OR XOR MUL DIV x 16 register pairs) x all 65 536 operand values x carry-in, unary ops x 4 registers x 256 values x 16 flag nibbles, EI/DI/PUSHF/POPF/LDFR x 256 flag-register values, JR family x 8 conditions x 16 flag nibbles x 256 offsets, every two-byte form (16 source bytes x 88 defined second bytes) and PUSH/POP/CALL/RETI/DEC-memory forms x sampled register/pointer/memory contents biased to the RAM/I-O boundary; sequence tier: seeded random programs (opcode-biased bytes) run in lock-step for up to 3 000 instructions. After every instruction R0-R2, PC, FR, SP, all 240 RAM cells, FE/FF and (when touched) the board/timer/UART registers are compared with the reference interpreter. distinct_nontrivial counts distinct (first byte, second byte, flags-in nibble) classes whose instruction completed on the real machine and was compared",
        exhaustive: false,
        assumptions: vec![
            "refmodel::isa is the instruction set definition (transcribed from the microprogram listing and the statement of C01; DESIGN.md appendix A)",
            "bus addresses 0xF0-0xFB are delegated to a clone of the real Bus (checked on its own by C10/C14)",
            "instructions that read 0xF9 or use second bytes 0x02-0x0F are executed but not compared",
        ],
        floors: vec![
            ("alu_pairs_exhaustive", 128 * 65_536),
            ("instructions_compared", 12_000_000),
            ("first_bytes_seen", 230),
            ("second_bytes_seen", 88),
            ("seq_programs", 100),
        ],
    }
}

#[derive(Clone)]
pub struct Init {
    pub ram: [u8; 0xF0],
    /// r0 r1 r2 pc fr sp
    pub regs: [u8; 6],
    pub inputs: [u8; 4],
}

impl Init {
    pub fn zero() -> Self {
        Init { ram: [0; 0xF0], regs: [0; 6], inputs: [0; 4] }
    }
    pub fn to_json(&self, n: usize) -> J {
        obj![("ram", self.ram.to_vec()), ("regs_r0_r1_r2_pc_fr_sp", self.regs.to_vec()), ("inputs_fc_fd_fe_ff", self.inputs.to_vec()), ("instructions", n), ("ram_hex", hex(&self.ram))]
    }
    pub fn from_json(j: &J) -> (Self, usize) {
        let mut i = Init::zero();
        if let Some(b) = j.get("ram").and_then(|v| v.bytes()) {
            for (k, v) in b.iter().take(0xF0).enumerate() {
                i.ram[k] = *v;
            }
        }
        if let Some(b) = j.get("regs_r0_r1_r2_pc_fr_sp").and_then(|v| v.bytes()) {
            for (k, v) in b.iter().take(6).enumerate() {
                i.regs[k] = *v;
            }
        }
        if let Some(b) = j.get("inputs_fc_fd_fe_ff").and_then(|v| v.bytes()) {
            for (k, v) in b.iter().take(4).enumerate() {
                i.inputs[k] = *v;
            }
        }
        (i, j.get("instructions").and_then(|v| v.as_u64()).unwrap_or(1) as usize)
    }
    pub fn build(&self, template: &Machine) -> Machine {
        let mut m = template.clone();
        m.raw_mut().bus_mut().memory_mut().copy_from_slice(&self.ram);
        m.set_input_fc(self.inputs[0]);
        m.set_input_fd(self.inputs[1]);
        m.set_input_fe(self.inputs[2]);
        m.set_input_ff(self.inputs[3]);
        for i in 0..6 {
            real::set_reg(&mut m, i, self.regs[i]);
        }
        m
    }
}

pub struct MBus {
    pub ram: [u8; 0xF0],
    pub inputs: [u8; 4],
    pub outputs: [u8; 2],
    pub io: Bus,
    pub io_touched: bool,
    pub f9_read: bool,
}

impl BusModel for MBus {
    fn read(&mut self, a: u8) -> u8 {
        match a {
            0x00..=0xEF => self.ram[a as usize],
            0xFC..=0xFF => self.inputs[(a - 0xFC) as usize],
            _ => {
                if a == 0xF9 {
                    self.f9_read = true;
                }
                self.io_touched = true;
                self.io.read(a)
            }
        }
    }
    fn write(&mut self, a: u8, v: u8) {
        match a {
            0x00..=0xEF => self.ram[a as usize] = v,
            0xFE | 0xFF => {
                self.outputs[(a - 0xFE) as usize] = v;
            }
            _ => {
                self.io_touched = true;
                self.io.write(a, v)
            }
        }
    }
}

pub struct Lock {
    pub m: Machine,
    pub cpu: Cpu,
    pub bus: MBus,
}

pub enum StepRes {
    Ok(Class, u8, Option<u8>, u64),
    /// (signature, description)
    Mismatch(String, String),
    End(&'static str),
}

impl Lock {
    /// `m` must be at an instruction boundary.
    pub fn new(m: Machine) -> Self {
        let a = real::arch(&m);
        let mut ram = [0u8; 0xF0];
        ram.copy_from_slice(&m.bus().memory()[..]);
        let bus = MBus {
            ram,
            inputs: [m.bus().read(0xFC), m.bus().read(0xFD), m.bus().read(0xFE), m.bus().read(0xFF)],
            outputs: [m.bus().output_fe(), m.bus().output_ff()],
            io: m.bus().clone(),
            io_touched: false,
            f9_read: false,
        };
        Lock { cpu: Cpu { r: a.r, fr: a.fr, sp: a.sp }, bus, m }
    }
    pub fn resync(&mut self) {
        let m = std::mem::replace(&mut self.m, real::blank_machine());
        *self = Lock::new(m);
    }
    /// Execute one instruction on both sides and compare.
    pub fn step(&mut self) -> StepRes {
        let first = self.bus.read_quiet(self.cpu.r[3]);
        let flags_in = self.cpu.fr;
        self.bus.io_touched = false;
        self.bus.f9_read = false;
        let out = isa::step(&mut self.cpu, &mut self.bus);
        let (class, steps) = match out {
            Outcome::Done { class, steps, .. } => (class, steps),
            Outcome::Halt { byte, .. } => {
                // real machine must halt accordingly; C05 owns the details. Continue over STOP.
                match real::to_next_boundary(&mut self.m) {
                    Adv::Halted(_) => {
                        if byte == 0x01 && self.m.state() == State::Stopped {
                            self.m.trigger_key_continue();
                            match real::to_next_boundary(&mut self.m) {
                                Adv::Boundary(_) => {
                                    self.resync();
                                    return StepRes::End("stop");
                                }
                                Adv::Halted(_) => return StepRes::End("halted"),
                            }
                        }
                        return StepRes::End("halted");
                    }
                    Adv::Boundary(_) => return StepRes::End("halt-expected"),
                }
            }
            Outcome::Undefined { .. } => return StepRes::End("undefined"),
            Outcome::Unspecified => return StepRes::End("unspecified"),
        };
        let second = None;
        let edges = match real::to_next_boundary(&mut self.m) {
            Adv::Boundary(n) => n,
            Adv::Halted(_) => return StepRes::End("halted"),
        };
        if self.bus.f9_read {
            self.resync();
            return StepRes::End("f9-read");
        }
        let name = class.name();
        let a = real::arch(&self.m);
        for i in 0..3 {
            if a.r[i] != self.cpu.r[i] {
                return StepRes::Mismatch(format!("C01:{}:R{}", name, i), format!("R{} = {:#04x}, instruction set says {:#04x}", i, a.r[i], self.cpu.r[i]));
            }
        }
        if a.r[3] != self.cpu.r[3] {
            return StepRes::Mismatch(format!("C01:{}:PC", name), format!("PC = {:#04x}, instruction set says {:#04x}", a.r[3], self.cpu.r[3]));
        }
        if a.sp != self.cpu.sp {
            return StepRes::Mismatch(format!("C01:{}:SP", name), format!("SP = {:#04x}, instruction set says {:#04x}", a.sp, self.cpu.sp));
        }
        if a.fr != self.cpu.fr {
            let diff = a.fr ^ self.cpu.fr;
            let which = if diff & isa::C != 0 {
                "flag-C"
            } else if diff & isa::Z != 0 {
                "flag-Z"
            } else if diff & isa::N != 0 {
                "flag-N"
            } else if diff & isa::IE != 0 {
                "flag-IE"
            } else {
                "flag-upper"
            };
            return StepRes::Mismatch(format!("C01:{}:{}", name, which), format!("FR = {:#04x}, instruction set says {:#04x} (flags before: {:#04x})", a.fr, self.cpu.fr, flags_in));
        }
        let mem = self.m.bus().memory();
        if mem[..] != self.bus.ram[..] {
            let i = (0..0xF0).find(|&i| mem[i] != self.bus.ram[i]).unwrap();
            return StepRes::Mismatch(format!("C01:{}:RAM", name), format!("RAM[{:#04x}] = {:#04x}, instruction set says {:#04x}", i, mem[i], self.bus.ram[i]));
        }
        if self.m.bus().output_fe() != self.bus.outputs[0] || self.m.bus().output_ff() != self.bus.outputs[1] {
            return StepRes::Mismatch(format!("C01:{}:OUT", name), format!("outputs FE/FF = {}/{}, instruction set says {}/{}", self.m.bus().output_fe(), self.m.bus().output_ff(), self.bus.outputs[0], self.bus.outputs[1]));
        }
        if self.bus.io_touched {
            let mut s1 = self.m.bus().verif_snapshot();
            let mut s2 = self.bus.io.verif_snapshot();
            s1.misr = 0;
            s2.misr = 0;
            if s1 != s2 || self.m.bus().board() != self.bus.io.board() {
                return StepRes::Mismatch(format!("C01:{}:IO", name), "board/timer/UART/MICR registers differ from applying the instruction's bus accesses once, in order".to_string());
            }
        }
        let _ = steps;
        StepRes::Ok(class, first, second, edges)
    }
}

impl MBus {
    fn read_quiet(&self, a: u8) -> u8 {
        match a {
            0x00..=0xEF => self.ram[a as usize],
            0xFC..=0xFF => self.inputs[(a - 0xFC) as usize],
            _ => self.io.read(a),
        }
    }
}

pub struct CaseResult {
    pub compared: u64,
    pub end: &'static str,
    pub violation: Option<(String, String, usize)>,
}

/// Run `n` instructions in lock-step from `init`.
pub fn run_case(template: &Machine, init: &Init, n: usize, rep: &mut Report, second_hint: Option<u8>) -> CaseResult {
    let r = catch(|| {
        let mut local = Report::new();
        let mut m = init.build(template);
        if let Adv::Halted(_) = real::to_first_boundary(&mut m) {
            return (CaseResult { compared: 0, end: "halted-at-start", violation: None }, local);
        }
        let mut lock = Lock::new(m);
        let mut compared = 0u64;
        for k in 0..n {
            match lock.step() {
                StepRes::Ok(_class, first, _second, _edges) => {
                    compared += 1;
                    let flags = lock_flags_class(&lock);
                    let second = if k == 0 { second_hint.unwrap_or(0) } else { 0 };
                    local.class(&[first as u64, second as u64, flags as u64]);
                    local.count_first(first);
                    if first >= 0xF0 && k == 0 {
                        if let Some(s) = second_hint {
                            local.count_second(s);
                        }
                    }
                }
                StepRes::Mismatch(sig, what) => {
                    return (CaseResult { compared, end: "mismatch", violation: Some((sig, what, k)) }, local);
                }
                StepRes::End(why) => {
                    if why == "stop" {
                        continue;
                    }
                    return (CaseResult { compared, end: why, violation: None }, local);
                }
            }
        }
        (CaseResult { compared, end: "budget", violation: None }, local)
    });
    match r {
        Ok((res, local)) => {
            rep.merge(local);
            res
        }
        Err(p) => {
            let sig = if p.is_fuel() { "C01:no-completion".to_string() } else { format!("C01:panic:{}", p.site()) };
            CaseResult { compared: 0, end: "panic", violation: Some((sig, format!("{} at {}:{}", p.msg, p.file, p.line), 0)) }
        }
    }
}

fn lock_flags_class(l: &Lock) -> u8 {
    l.cpu.fr & 0x0F
}

trait Seen {
    fn count_first(&mut self, b: u8);
    fn count_second(&mut self, b: u8);
}
impl Seen for Report {
    fn count_first(&mut self, b: u8) {
        self.mark(b as usize);
    }
    fn count_second(&mut self, b: u8) {
        self.mark(256 + b as usize);
    }
}

fn record(rep: &mut Report, init: &Init, n: usize, res: CaseResult) {
    rep.evaluations += 1;
    rep.count("instructions_compared", res.compared);
    rep.count(&format!("end_{}", res.end), 1);
    if let Some((sig, what, k)) = res.violation {
        rep.violate(&sig, format!("instruction #{}: {}", k, what), init.to_json(n));
    }
}

const ALU_BASES: [u8; 8] = [0x60, 0x70, 0x80, 0x90, 0xA0, 0xD0, 0xB0, 0xC0];
pub const SECOND_BYTES: std::ops::RangeInclusive<u8> = 0x10..=0x6F;

pub fn second_defined(b: u8) -> bool {
    (0x10..=0x47).contains(&b) || (0x50..=0x6F).contains(&b)
}

fn pointer_biased(rng: &mut Rng) -> u8 {
    match rng.below(8) {
        0 => 0xE8 + rng.below(16) as u8,
        1 => 0xF0 + rng.below(16) as u8,
        2 => 0xFC + rng.below(4) as u8,
        3 => rng.below(8) as u8,
        _ => 0x20 + rng.below(0xB0) as u8,
    }
}

/// Random machine state around an instruction placed at `pc`.
fn random_init(rng: &mut Rng, code_at: u8, code: &[u8]) -> Init {
    let mut init = Init::zero();
    for b in init.ram.iter_mut() {
        *b = rng.u8();
    }
    // pointers stored in RAM should often point to interesting places
    for _ in 0..40 {
        let i = rng.usize(0xF0);
        init.ram[i] = pointer_biased(rng);
    }
    for (i, b) in code.iter().enumerate() {
        let a = code_at as usize + i;
        if a < 0xF0 {
            init.ram[a] = *b;
        }
    }
    init.regs = [pointer_biased(rng), pointer_biased(rng), pointer_biased(rng), code_at, rng.u8(), pointer_biased(rng)];
    if rng.chance(1, 2) {
        init.regs[0] = rng.u8();
    }
    init.inputs = [rng.u8(), rng.u8(), rng.u8(), rng.u8()];
    init
}

/// Opcode-biased random program image.
pub fn random_program(rng: &mut Rng) -> Init {
    let mut init = Init::zero();
    let style = rng.below(3);
    let mut i = 0usize;
    while i < 0xF0 {
        let b = match style {
            0 => rng.u8(),
            _ => {
                // valid first bytes, avoid STOP/error bytes mostly
                loop {
                    let b = rng.u8();
                    let undefined = (0x4C..=0x4F).contains(&b) || (0xE0..=0xEF).contains(&b) || b < 2;
                    if !undefined || rng.chance(1, 200) {
                        break b;
                    }
                }
            }
        };
        init.ram[i] = b;
        i += 1;
        if b >= 0xF0 && style != 0 && i < 0xEE {
            // immediate / absolute operand, then a defined second byte
            if (b >> 2) & 3 >= 2 && b & 3 == 3 {
                init.ram[i] = pointer_biased(rng);
                i += 1;
            }
            let sb = loop {
                let sb = 0x10 + rng.below(0x60) as u8;
                if second_defined(sb) {
                    break sb;
                }
            };
            init.ram[i] = sb;
            i += 1;
            if (sb >> 2) & 3 == 3 && sb & 3 == 3 && sb < 0x40 || (sb >= 0x50 && (sb >> 2) & 3 == 3 && sb & 3 == 3) {
                if i < 0xF0 {
                    init.ram[i] = pointer_biased(rng);
                    i += 1;
                }
            }
        } else if (0x20..0x2C).contains(&b) && i < 0xF0 && style == 2 {
            // short relative jumps / calls into the program
            init.ram[i] = if b < 0x28 { (rng.below(16) as u8).wrapping_sub(8) } else { rng.below(0xE0) as u8 };
            i += 1;
        }
    }
    init.regs = [rng.u8(), rng.u8(), rng.u8(), 0, rng.u8() & 0x07, 0xE0 + rng.below(16) as u8];
    init.inputs = [rng.u8(), rng.u8(), rng.u8(), rng.u8()];
    init
}

/// Workload sizes of the shared single-instruction / sequence case generator.
#[derive(Clone, Copy)]
pub struct Sizes {
    pub two_byte_samples: usize,
    pub misc_samples: usize,
    pub seq_programs: usize,
    /// stride over the Rs operand value for the non-MUL/DIV ALU opcodes (1 = exhaustive)
    pub alu_stride: usize,
}

const N_ALU: usize = 128 * 256;
const N_UNARY: usize = 9 * 4;
const N_JR: usize = 8;
const N_FR: usize = 5;
const N_TWO: usize = 16 * 96;
const N_MISC: usize = 64;

pub fn n_items(sz: &Sizes) -> usize {
    N_ALU + N_UNARY + N_JR + N_FR + N_TWO + N_MISC + (sz.seq_programs + 9) / 10
}

/// Enumerate the cases of work item `i`. `emit(group, init, instructions, second_byte_hint)`.
pub fn cases(i: usize, seed: u64, sz: &Sizes, emit: &mut dyn FnMut(&'static str, &Init, usize, Option<u8>)) {
    let mut rng = Rng::new(seed);
    let mut idx = i;
    if idx < N_ALU {
        let opi = idx / 256;
        let a = (idx % 256) as u8;
        let base = ALU_BASES[opi / 16];
        let pair = (opi % 16) as u8;
        let (d, s) = ((pair & 3) as usize, (pair >> 2) as usize);
        let op = base | pair;
        let stride = if base == 0xB0 || base == 0xC0 { 1 } else { sz.alu_stride.max(1) };
        let mut b16 = (a as usize * 7) % stride;
        while b16 < 256 {
            let b = b16 as u8;
            b16 += stride;
            // operand values: Rd = a, Rs = b
            if d == s && a != b {
                continue;
            }
            // PC-involving operands have the value implied by placement
            let pc_after_fetch = if d == 3 { Some(a) } else if s == 3 { Some(b) } else { None };
            let code_at = match pc_after_fetch {
                Some(v) => {
                    if v == 0 || v > 0xF0 {
                        continue;
                    }
                    v - 1
                }
                None => 0x10,
            };
            for &cin in &[0u8, 1] {
                let mut init = Init::zero();
                init.ram[code_at as usize] = op;
                init.regs = [0x11, 0x22, 0x33, code_at, 0xA0 | cin | (b & 0x06), 0xE0];
                if d < 3 {
                    init.regs[d] = a;
                }
                if s < 3 {
                    init.regs[s] = b;
                }
                emit("alu", &init, 1, None);
            }
        }
        return;
    }
    idx -= N_ALU;
    if idx < N_UNARY {
        let bases: [u8; 9] = [0x04, 0x30, 0x34, 0x38, 0x3C, 0x40, 0x44, 0x50, 0x48];
        let op = bases[idx / 4] | (idx % 4) as u8;
        let reg = idx % 4;
        for v in 0..=255u8 {
            let code_at = if reg == 3 {
                if v == 0 || v > 0xF0 {
                    continue;
                }
                v - 1
            } else {
                0x20
            };
            for fl in 0..16u8 {
                let mut init = Init::zero();
                init.ram[code_at as usize] = op;
                init.regs = [0x55, 0x66, 0x77, code_at, fl | (v & 0xF0), 0xD8];
                if reg < 3 {
                    init.regs[reg] = v;
                }
                emit("unary", &init, 1, None);
            }
        }
        return;
    }
    idx -= N_UNARY;
    if idx < N_JR {
        let op = 0x20 | idx as u8;
        for off in 0..=255u8 {
            for fl in 0..16u8 {
                let mut init = Init::zero();
                let code_at = 0x40u8;
                init.ram[code_at as usize] = op;
                init.ram[code_at as usize + 1] = off;
                init.regs = [1, 2, 3, code_at, fl | 0x50, 0xE0];
                emit("jr", &init, 1, None);
            }
        }
        return;
    }
    idx -= N_JR;
    if idx < N_FR {
        for fr in 0..=255u8 {
            for k in 0..4u8 {
                let mut init = Init::zero();
                let code_at = 0x30u8;
                let sp = 0xC0 + k;
                match idx {
                    0 => init.ram[0x30] = 0x08 | k,
                    1 => init.ram[0x30] = 0x0C | k,
                    2 => init.ram[0x30] = 0x18 | k,
                    3 => {
                        init.ram[0x30] = 0x1C | k;
                        init.ram[sp as usize] = fr;
                    }
                    _ => {
                        // LDFR Rk (k<3), or LDFR #imm
                        if k < 3 {
                            init.ram[0x30] = 0xF0 | k;
                            init.ram[0x31] = 0x44;
                        } else {
                            init.ram[0x30] = 0xFB;
                            init.ram[0x31] = fr;
                            init.ram[0x32] = 0x45;
                        }
                    }
                }
                init.regs = [fr, fr, fr, code_at, if idx == 3 || idx == 4 { !fr } else { fr }, sp];
                let sh = if idx == 4 { Some(if k < 3 { 0x44 } else { 0x45 }) } else { None };
                emit("fr", &init, 1, sh);
            }
        }
        return;
    }
    idx -= N_FR;
    if idx < N_TWO {
        let first = 0xF0 | (idx / 96) as u8;
        let second = 0x10 + (idx % 96) as u8;
        if !second_defined(second) {
            return;
        }
        for _ in 0..sz.two_byte_samples {
            let code_at = if rng.chance(1, 8) { 0xEA + rng.below(4) as u8 } else { 0x08 + rng.below(0xC0) as u8 };
            let mut code = vec![first];
            let smode = (first >> 2) & 3;
            if first & 3 == 3 && smode >= 2 {
                code.push(pointer_biased(&mut rng));
            }
            code.push(second);
            let dmode = (second >> 2) & 3;
            if second & 3 == 3 && dmode >= 2 && !(0x40..0x48).contains(&second) {
                code.push(pointer_biased(&mut rng));
            }
            let mut init = random_init(&mut rng, code_at, &code);
            init.regs[3] = code_at;
            emit("two_byte", &init, 1, Some(second));
        }
        return;
    }
    idx -= N_TWO;
    if idx < N_MISC {
        // PUSH/POP/PUSHF/POPF (0x10-0x1F), CALL/RETI (0x28-0x2F), DEC forms (0x50-0x5F), NOP/CLR/EI/DI, JR
        let ops: Vec<u8> = (0x10..=0x1F).chain(0x28..=0x2F).chain(0x50..=0x5F).chain(0x02..=0x0F).chain(0x20..=0x27).collect();
        let op = ops[idx % ops.len()];
        for _ in 0..sz.misc_samples {
            let code_at = if rng.chance(1, 8) { 0xEC + rng.below(4) as u8 } else { 0x08 + rng.below(0xD0) as u8 };
            let code = vec![op, pointer_biased(&mut rng)];
            let mut init = random_init(&mut rng, code_at, &code);
            init.regs[3] = code_at;
            emit("misc", &init, 1, None);
        }
        return;
    }
    for _ in 0..10 {
        let init = random_program(&mut rng);
        let n = 200 + rng.usize(2800);
        emit("seq", &init, n, None);
    }
}

pub fn run(ctx: &Ctx) -> Report {
    let template = real::blank_machine();
    let sz = Sizes {
        two_byte_samples: ctx.size(1000, 10_000) as usize,
        misc_samples: ctx.size(6000, 200_000) as usize,
        seq_programs: ctx.size(100_000, 4_000_000) as usize,
        alu_stride: 1,
    };
    let mut rep = par_items(ctx.threads, n_items(&sz), ctx.seed, |i, seed, rep| {
        let mut first_seq = i == n_items(&sz) - 1;
        cases(i, seed, &sz, &mut |group, init, n, hint| {
            let res = run_case(&template, init, n, rep, hint);
            match group {
                "alu" => rep.count("alu_cases", 1),
                "unary" => rep.count("unary_cases", 1),
                "jr" => rep.count("jr_cases", 1),
                "fr" => rep.count("fr_cases", 1),
                "two_byte" => rep.count("two_byte_cases", 1),
                "misc" => rep.count("misc_cases", 1),
                _ => {
                    rep.count("seq_programs", 1);
                    rep.count("seq_instructions", res.compared);
                    if first_seq {
                        first_seq = false;
                        rep.sample(obj![("tier", "sequence"), ("program_first_32_bytes", hex(&init.ram[..32])), ("registers_r0_r1_r2_pc_fr_sp", init.regs.to_vec()), ("instructions_compared", res.compared), ("ended_by", res.end)]);
                    }
                }
            }
            record(rep, init, n, res);
        });
        if i < N_ALU {
            rep.count("alu_pairs_exhaustive", 256);
            if i == 0x23 * 256 + 0x9C {
                rep.sample(obj![("tier", "exhaustive ALU work item"), ("opcode", format!("{:#04x}", ALU_BASES[(i / 256) / 16] | ((i / 256) % 16) as u8)), ("rd_value", i % 256), ("rs_values", "0..=255"), ("carry_in", "0,1")]);
            }
        }
    });
    let fb = rep.marks_in(0, 256);
    let sb = rep.marks_in(256, 512);
    rep.count("first_bytes_seen", fb);
    rep.count("second_bytes_seen", sb);
    rep
}

pub fn replay(_ctx: &Ctx, w: &J) -> Report {
    let mut rep = Report::new();
    let (init, n) = Init::from_json(w);
    let template = real::blank_machine();
    let res = run_case(&template, &init, n, &mut rep, None);
    record(&mut rep, &init, n, res);
    rep
}
