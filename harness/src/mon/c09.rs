//! C09 — micro-sequencer control flow is well-formed: defined opcodes always
//! complete. The successor relation is extracted by forcing every control
//! state on the real machine (hook H2) and executing one real clock edge;
//! an offline graph checker then decides the statement. MUL/DIV termination
//! is checked concretely for all operand pairs.
use crate::json::J;
use crate::real;
use crate::report::{Meta, Report};
use crate::util::{catch, par_items};
use crate::{obj, Ctx};
use emulator_2a_lib::machine::{verif, Machine, MicroprogramRam, Word};
use std::collections::{BTreeSet, HashMap, HashSet};

pub fn meta() -> Meta {
    Meta {
        id: "C09",
        rule: "graph extraction: all 512 micro-addresses x 256 instruction-register values x 16 flag nibbles x 6 ALU condition outcomes (carry x {zero, negative, neither}) x pending key interrupt are forced on the real machine and one real clock edge is executed (at opcode-loading words the loaded byte ranges over all 256 values instead); the recorded successors form the control-flow graph on which reachability from reset (one start node, required to be the same after a CPU reset, a master reset and a program load from about 19 000 forced control states) and from every fetch, zero words, cycles, completion and routine containment are decided for every first byte and every (first, second) byte pair; MUL and DIV are run concretely for all 65 536 operand pairs. distinct_nontrivial counts distinct control-graph nodes (micro-address, IR) reachable from a fetch",
        exhaustive: true,
        assumptions: vec![
            "only the successor function is abstracted (flags, ALU conditions and interrupts as free inputs); data-driven loop exits are checked concretely",
            "hook verif_force_control sets exactly the sequencer inputs and nothing else",
        ],
        floors: vec![("forced_edges", 25_000_000), ("first_bytes_decided", 256), ("byte_pairs_decided", 4096), ("loop_pairs_run", 131_072), ("reachable_nodes", 500)],
    }
}

fn is_done_word(a: usize) -> bool {
    MicroprogramRam::CONTENT[a].contains(Word::MAC3)
}
fn is_ir_load(a: usize) -> bool {
    let w = MicroprogramRam::CONTENT[a];
    w.contains(Word::MAC0) && w.contains(Word::MAC2) && !w.contains(Word::MAC1)
}
fn is_ir_reset(a: usize) -> bool {
    let w = MicroprogramRam::CONTENT[a];
    w.contains(Word::MAC1) && w.contains(Word::MAC2)
}
fn is_zero_word(a: usize) -> bool {
    MicroprogramRam::CONTENT[a].bits() == 0
}

type Node = (u16, u8);

/// Successors of control state (a, ir) over all condition inputs; for opcode
/// loading words `bytes` are the candidate loaded bytes.
fn successors(template: &Machine, a: usize, ir: u8, loaded: Option<u8>) -> Result<BTreeSet<Node>, String> {
    let mut out = BTreeSet::new();
    for flags in 0..16u8 {
        for &(alu_v, alu_c) in &[(1u8, false), (0u8, false), (0x80u8, false), (1u8, true), (0u8, true), (0x80u8, true)] {
            for &pend in &[false, true] {
                let mut m = template.clone();
                real::set_reg(&mut m, 4, flags);
                m.raw_mut().verif_force_control(a, ir, alu_v, alu_c, pend, loaded.unwrap_or(0x02));
                let r = catch(|| {
                    verif::set_fuel(Some(4));
                    real::edge(&mut m);
                    verif::set_fuel(None);
                    let s = m.verif_snapshot();
                    (s.micro_address as u16, s.instruction_register)
                });
                match r {
                    Ok(n) => {
                        out.insert(n);
                    }
                    Err(p) => return Err(format!("forced edge at micro-address {:#05x} IR {:#04x} panicked: {}", a, ir, p.msg)),
                }
            }
        }
    }
    Ok(out)
}

const MUL_LOOP: [u16; 4] = [0x165, 0x166, 0x167, 0x168];
const DIV_LOOP: [u16; 2] = [0x187, 0x188];

struct Graph {
    /// successors for plain nodes
    succ: HashMap<Node, Vec<Node>>,
    /// successors of opcode-loading words per loaded byte: (a, byte) -> nodes
    load_succ: HashMap<(u16, u8), Vec<Node>>,
}

#[derive(Default, Debug)]
struct Walk {
    completes_somewhere: bool,
    dead_end_or_cycle: Option<String>,
    zero_word: Option<u16>,
    out_of_routine: Option<u16>,
    second_fetch_nodes: Vec<Node>,
    visited: usize,
}

/// Explore from `starts` until fetch words; `block_ok` tells whether an address belongs to the routine.
fn walk(g: &Graph, starts: &[Node], block_ok: &dyn Fn(u16, bool) -> bool, all_nodes: &mut HashSet<Node>) -> Walk {
    let mut w = Walk::default();
    // iterative DFS with colours
    let mut colour: HashMap<Node, u8> = HashMap::new();
    let mut stack: Vec<(Node, usize, bool)> = vec![];
    for s in starts {
        if colour.contains_key(s) {
            continue;
        }
        stack.push((*s, 0, false));
        while let Some((node, idx, after_reset)) = stack.pop() {
            let (a, _ir) = node;
            if idx == 0 {
                colour.insert(node, 1);
                all_nodes.insert(node);
                w.visited += 1;
                if is_zero_word(a as usize) {
                    w.zero_word = Some(a);
                    colour.insert(node, 2);
                    continue;
                }
                if !block_ok(a, after_reset) && w.out_of_routine.is_none() {
                    w.out_of_routine = Some(a);
                }
                if is_done_word(a as usize) {
                    w.completes_somewhere = true;
                    colour.insert(node, 2);
                    continue;
                }
                if is_ir_load(a as usize) {
                    // second opcode fetch: handled by the caller per second byte
                    w.second_fetch_nodes.push(node);
                    colour.insert(node, 2);
                    continue;
                }
            }
            let succ = g.succ.get(&node).cloned().unwrap_or_default();
            if succ.is_empty() {
                w.dead_end_or_cycle = Some(format!("no successor recorded for micro-address {:#05x}", a));
                colour.insert(node, 2);
                continue;
            }
            if idx < succ.len() {
                stack.push((node, idx + 1, after_reset));
                let n = succ[idx];
                let reset_now = after_reset || is_ir_reset(a as usize);
                match colour.get(&n) {
                    None => stack.push((n, 0, reset_now)),
                    Some(1) => {
                        // back edge: the cycle is the part of the DFS stack from n to node
                        let mut cyc: Vec<u16> = stack.iter().map(|(x, _, _)| x.0).collect();
                        if let Some(pos) = stack.iter().position(|(x, _, _)| *x == n) {
                            cyc = cyc[pos..].to_vec();
                        }
                        cyc.push(n.0);
                        let in_mul = cyc.iter().all(|x| MUL_LOOP.contains(x));
                        let in_div = cyc.iter().all(|x| DIV_LOOP.contains(x));
                        if !(in_mul || in_div) && w.dead_end_or_cycle.is_none() {
                            let mut c = cyc.clone();
                            c.sort();
                            c.dedup();
                            w.dead_end_or_cycle = Some(format!("cycle through micro-addresses {:?}", c.iter().map(|x| format!("{:#05x}", x)).collect::<Vec<_>>()));
                        }
                    }
                    _ => {}
                }
            } else {
                colour.insert(node, 2);
            }
        }
    }
    w
}

fn first_byte_defined(b: u8) -> bool {
    !((0x4C..=0x4F).contains(&b) || (0xE0..=0xEF).contains(&b))
}
fn second_byte_defined(s: u8) -> bool {
    (0x10..=0x47).contains(&s) || (0x50..=0x6F).contains(&s)
}

pub fn run(ctx: &Ctx) -> Report {
    let template = real::blank_machine();
    // ---- phase 1: extraction (parallel over micro-addresses)
    let parts = std::sync::Mutex::new((HashMap::<Node, Vec<Node>>::new(), HashMap::<(u16, u8), Vec<Node>>::new()));
    let mut rep = par_items(ctx.threads, 512, ctx.seed, |a, _seed, rep| {
        let mut succ: Vec<(Node, Vec<Node>)> = vec![];
        let mut lsucc: Vec<((u16, u8), Vec<Node>)> = vec![];
        if is_ir_load(a) {
            for byte in 0..=255u8 {
                // old IR must not matter: try three different ones
                let mut sets = vec![];
                for &old in &[0x04u8, 0xF3, byte.wrapping_add(0x5B)] {
                    match successors(&template, a, old, Some(byte)) {
                        Ok(s) => sets.push(s),
                        Err(e) => {
                            rep.violate("C09:forced-edge-panic", e, obj![("micro_address", a), ("loaded_byte", byte)]);
                            return;
                        }
                    }
                    rep.count("forced_edges", 192);
                }
                if sets[0] != sets[1] || sets[0] != sets[2] {
                    rep.violate("C09:successor-depends-on-stale-ir", format!("after loading byte {:#04x} at {:#05x} the successor depends on the previous IR", byte, a), obj![("micro_address", a), ("loaded_byte", byte)]);
                }
                lsucc.push(((a as u16, byte), sets[0].iter().cloned().collect()));
            }
        } else {
            for ir in 0..=255u8 {
                match successors(&template, a, ir, None) {
                    Ok(s) => succ.push(((a as u16, ir), s.into_iter().collect())),
                    Err(e) => {
                        rep.violate("C09:forced-edge-panic", e, obj![("micro_address", a), ("ir", ir)]);
                        return;
                    }
                }
                rep.count("forced_edges", 192);
            }
        }
        rep.evaluations += 1;
        let mut p = parts.lock().unwrap();
        p.0.extend(succ);
        p.1.extend(lsucc);
    });
    let (succ, load_succ) = parts.into_inner().unwrap();
    let g = Graph { succ, load_succ };
    // structural agreement: a word loads a FIRST opcode byte (successors of loaded byte b lie at
    // the entry of b's routine) exactly if it carries the instruction-end marker
    for a in 0..512usize {
        if is_zero_word(a) {
            continue;
        }
        let decodes_first_byte = is_ir_load(a) && (0x10..=0xFFu16).step_by(0x10).all(|b| {
            g.load_succ.get(&(a as u16, b as u8)).map(|v| !v.is_empty() && v.iter().all(|n| (n.0 >> 5) == (b >> 4) && n.0 & 0x1C == 0)).unwrap_or(false)
        });
        if decodes_first_byte != is_done_word(a) {
            rep.violate("C09:instruction-end-marker", format!("micro-address {:#05x}: {} a first opcode byte but is {}marked as the end of an instruction", a, if decodes_first_byte { "fetches" } else { "does not fetch" }, if is_done_word(a) { "" } else { "not " }), obj![("micro_address", a)]);
        }
    }
    let fetch_words: Vec<u16> = (0..512usize).filter(|a| is_done_word(*a) && is_ir_load(*a)).map(|a| a as u16).collect();
    rep.count("fetch_words", fetch_words.len() as u64);
    let mut all_nodes: HashSet<Node> = HashSet::new();

    // ---- phase 2: decide per first byte / byte pair
    let mut never_complete_first = vec![];
    let mut incomplete_pairs: Vec<(u8, u8)> = vec![];
    for b in 0..=255u8 {
        // starts: successors of every fetch word having loaded b (all fetch words must agree)
        let mut starts: BTreeSet<Node> = BTreeSet::new();
        for f in &fetch_words {
            let s: BTreeSet<Node> = g.load_succ.get(&(*f, b)).cloned().unwrap_or_default().into_iter().collect();
            starts.extend(s);
        }
        let block = (b >> 4) as u16;
        let block_ok = move |a: u16, after_reset: bool| -> bool { (a >> 5) == block || (after_reset && (0x010..=0x017).contains(&a)) };
        let starts_v: Vec<Node> = starts.iter().cloned().collect();
        let w = walk(&g, &starts_v, &block_ok, &mut all_nodes);
        rep.inc("first_bytes_decided");
        let witness = obj![("first_byte", b)];
        if let Some(z) = w.zero_word {
            rep.violate("C09:zero-word-reachable", format!("first byte {:#04x} reaches the unprogrammed control word {:#05x}", b, z), witness.clone());
        }
        let two_byte = !w.second_fetch_nodes.is_empty();
        if first_byte_defined(b) {
            if let Some(why) = &w.dead_end_or_cycle {
                rep.violate("C09:defined-opcode-cannot-complete", format!("first byte {:#04x}: {}", b, why), witness.clone());
            } else if !w.completes_somewhere && !two_byte {
                rep.violate("C09:defined-opcode-cannot-complete", format!("first byte {:#04x} never reaches an instruction fetch", b), witness.clone());
            }
            if let Some(a) = w.out_of_routine {
                rep.violate("C09:leaves-routine", format!("first byte {:#04x} visits micro-address {:#05x} outside its routine", b, a), witness.clone());
            }
        } else {
            if w.completes_somewhere || two_byte {
                rep.violate("C09:undefined-opcode-completes", format!("undefined first byte {:#04x} can reach an instruction fetch", b), witness.clone());
            }
        }
        if !w.completes_somewhere && !two_byte {
            never_complete_first.push(b);
        }
        if two_byte {
            for s in 0..=255u8 {
                let mut st: BTreeSet<Node> = BTreeSet::new();
                for n in &w.second_fetch_nodes {
                    st.extend(g.load_succ.get(&(n.0, s)).cloned().unwrap_or_default());
                }
                let sblock = (s >> 4) as u16;
                let ok2 = move |a: u16, after_reset: bool| -> bool { (a >> 5) == sblock || (after_reset && (0x010..=0x017).contains(&a)) };
                let stv: Vec<Node> = st.iter().cloned().collect();
                let w2 = walk(&g, &stv, &ok2, &mut all_nodes);
                rep.inc("byte_pairs_decided");
                let wit = obj![("first_byte", b), ("second_byte", s)];
                if let Some(z) = w2.zero_word {
                    if second_byte_defined(s) {
                        rep.violate("C09:zero-word-reachable", format!("bytes {:#04x} {:#04x} reach the unprogrammed control word {:#05x}", b, s, z), wit.clone());
                    }
                }
                let completes_all = w2.dead_end_or_cycle.is_none() && w2.completes_somewhere && w2.zero_word.is_none();
                if second_byte_defined(s) {
                    if !completes_all {
                        rep.violate("C09:defined-second-byte-cannot-complete", format!("bytes {:#04x} {:#04x}: {}", b, s, w2.dead_end_or_cycle.clone().unwrap_or_else(|| "no instruction fetch reachable".into())), wit.clone());
                    }
                    if let Some(a) = w2.out_of_routine {
                        rep.violate("C09:leaves-routine", format!("bytes {:#04x} {:#04x} visit micro-address {:#05x} outside the second byte's routine", b, s, a), wit.clone());
                    }
                }
                if !completes_all {
                    incomplete_pairs.push((b, s));
                }
            }
        }
    }
    // from reset: whatever the control state was, a CPU reset must lead to one start node
    let mut reset_nodes: BTreeSet<Node> = BTreeSet::new();
    let mut master_nodes: BTreeSet<Node> = BTreeSet::new();
    for a in (0..512usize).step_by(7) {
        for ir in 0..=255u8 {
            let mut m = template.clone();
            m.raw_mut().verif_force_control(a, ir, 0x80, true, true, ir);
            // every kind of reset the machine has: CPU reset, master reset, loading a program
            let mut mm = m.clone();
            let mut ml = m.clone();
            m.cpu_reset();
            let s = m.verif_snapshot();
            reset_nodes.insert((s.micro_address as u16, s.instruction_register));
            mm.master_reset();
            let s = mm.verif_snapshot();
            master_nodes.insert((s.micro_address as u16, s.instruction_register));
            if ir % 16 == 0 {
                ml.load(emulator_2a_lib::compiler::ByteCode { lines: vec![], stacksize: emulator_2a_lib::parser::Stacksize::_16, programsize: emulator_2a_lib::parser::Programsize::Auto });
                let s = ml.verif_snapshot();
                master_nodes.insert((s.micro_address as u16, s.instruction_register));
            }
        }
    }
    rep.count("reset_probes", 74 * 256);
    rep.count("master_reset_and_load_probes", 74 * 256 + 74 * 16);
    if reset_nodes.len() != 1 {
        rep.violate("C09:reset-state-depends-on-history", format!("after a CPU reset the sequencer is in one of {} different control states: {:?}", reset_nodes.len(), reset_nodes.iter().take(6).collect::<Vec<_>>()), obj![("from", "reset")]);
    }
    if master_nodes != reset_nodes {
        rep.violate("C09:master-reset-state-depends-on-history", format!("after a master reset or a program load the sequencer is in one of {} control states {:?}, a CPU reset leads to {:?}", master_nodes.len(), master_nodes.iter().take(6).collect::<Vec<_>>(), reset_nodes.iter().take(3).collect::<Vec<_>>()), obj![("from", "reset")]);
    }
    {
        let start: Vec<Node> = reset_nodes.iter().cloned().collect();
        let block_ok = |a: u16, after_reset: bool| -> bool { (a >> 5) == 0 || (after_reset && (0x010..=0x017).contains(&a)) };
        let w = walk(&g, &start, &block_ok, &mut all_nodes);
        if w.zero_word.is_some() || w.dead_end_or_cycle.is_some() || !w.completes_somewhere {
            rep.violate("C09:reset-does-not-reach-fetch", format!("from reset: {:?}", w), obj![("from", "reset")]);
        }
    }
    rep.count("reachable_nodes", all_nodes.len() as u64);
    for n in all_nodes.iter() {
        rep.class(&[n.0 as u64, n.1 as u64]);
    }
    let incomplete_seconds: BTreeSet<u8> = incomplete_pairs.iter().map(|p| p.1).collect();
    rep.sample(obj![
        ("first_bytes_that_never_complete", never_complete_first.iter().map(|b| format!("{:#04x}", b)).collect::<Vec<_>>()),
        ("second_bytes_that_do_not_complete_for_some_first_byte", incomplete_seconds.len()),
        ("fetch_words", fetch_words.iter().map(|a| format!("{:#05x}", a)).collect::<Vec<_>>()),
    ]);

    // ---- phase 3: concrete loop termination, all operand pairs
    let loops = par_items(ctx.threads, 512, ctx.seed, |i, _s, rep| {
        let op: u8 = if i < 256 { 0xB4 } else { 0xC4 }; // MUL R0,R1 / DIV R0,R1
        let a = (i % 256) as u8;
        for b in 0..=255u8 {
            let mut m = template.clone();
            m.raw_mut().bus_mut().memory_mut()[0] = op;
            real::set_reg(&mut m, 0, a);
            real::set_reg(&mut m, 1, b);
            let r = catch(|| {
                real::to_first_boundary(&mut m);
                real::to_next_boundary(&mut m)
            });
            rep.count("loop_pairs_run", 1);
            if let Err(p) = r {
                let sig = if p.is_fuel() { "C09:loop-no-termination" } else { "C09:loop-panic" };
                rep.violate(sig, format!("{} R0={} R1={}: {}", if op == 0xB4 { "MUL" } else { "DIV" }, a, b, p.msg), obj![("loop_opcode", op), ("r0", a), ("r1", b)]);
            }
        }
        rep.evaluations += 256;
    });
    rep.merge(loops);
    rep
}

pub fn replay(ctx: &Ctx, _w: &J) -> Report {
    // the graph is small: a replay is the whole (exhaustive) check again
    run(ctx)
}
