pub mod c01;
pub mod c05;
pub mod c08;
pub mod c10;
pub mod c11;
pub mod c13;
pub mod c14;
pub mod c15;
