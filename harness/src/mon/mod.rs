pub mod c08;
