//! C04 — key interrupts are taken once, at an instruction boundary, and
//! transparently. Self-differential: the uninterrupted run of the same real
//! machine is the reference; every clock cycle of the run is a trigger point.
use crate::gen::prog::{self, BodyOpts, Builder, COUNTER};
use crate::json::J;
use crate::real::{self, Arch};
use crate::report::{Meta, Report};
use crate::rng::Rng;
use crate::util::{catch, hex, par_items};
use crate::{obj, Ctx};
use emulator_2a_lib::machine::{verif, Machine, MicroprogramRam, State, Word};

pub fn meta() -> Meta {
    Meta {
        id: "C04",
        rule: "generated main programs (arithmetic incl. MUL/DIV loops, all addressing modes, CALL/RET, PUSH/POP, PUSHF/POPF, memory traffic, bounded loops; a second family with EI/DI/LDFR windows) x interrupt routines that save what they use and count their entries; EVERY clock cycle of the uninterrupted run is used as trigger point (resuming from per-cycle snapshots), plus pairs of triggers in a sliding window. Checked: entry count (1 when key-edge enable and IE are set and an instruction end follows, 0 when the enable bit is clear, <= triggers otherwise), stack contents and IE at entry, and equality of R0-R2, PC, FR, SP, outputs and all live RAM with the uninterrupted run at STOP. distinct_nontrivial counts distinct (micro-address at trigger time, wait pending, entered?) classes",
        exhaustive: false,
        assumptions: vec![
            "reference = the uninterrupted run of the same real machine (self-differential); its own correctness is C01's",
            "a request latched while IE is clear, or while another one is latched/being served, is unspecified: only entries <= triggers and transparency are asserted",
            "live RAM = everything outside the 32-byte stack region 0xD0-0xEF and the routine's counter cell",
        ],
        floors: vec![
            ("programs", 100),
            ("trigger_points", 100_000),
            ("entries_checked", 50_000),
            ("expected_zero_checked", 1_000),
            ("entered_during_wait", 1_000),
            ("entered_during_mul", 100),
            ("entered_during_div", 100),
            ("entered_during_call", 100),
            ("entered_during_ret", 100),
            ("entered_during_two_byte", 1_000),
            ("entered_during_ei", 10),
            ("second_trigger_during_reti", 10),
            ("pair_runs", 10_000),
            ("pair_runs_with_two_entries", 500),
            ("expected_zero_with_ie_set", 200),
        ],
    }
}

const IE: u8 = 0x08;
const STACK_LO: usize = 0xD0;

pub struct Prog {
    pub image: Vec<u8>,
    pub inputs: [u8; 4],
    pub family: u8,
}

fn gen_program(rng: &mut Rng, family: u8) -> Option<Prog> {
    let mut b = Builder::new();
    let main = b.label();
    b.jr(0, main);
    // ISR at address 2
    match rng.below(3) {
        0 => {
            b.push(0);
            b.ld_abs(0, COUNTER);
            b.unary(0x44, 0);
            b.st_abs(COUNTER, 0);
            b.pop(0);
        }
        1 => {
            b.push(1);
            b.push(2);
            b.ld_abs(1, COUNTER);
            b.ld_imm(2, 1);
            b.alu(0x60, 1, 2);
            b.st_abs(COUNTER, 1);
            b.pop(2);
            b.pop(1);
        }
        _ => {
            b.emit(&[0x18]); // PUSHF
            b.push(2);
            b.ld_abs(2, COUNTER);
            b.unary(0x44, 2);
            b.st_abs(COUNTER, 2);
            b.ld_imm(2, 3);
            b.alu(0xB0, 2, 2); // MUL inside the routine
            b.pop(2);
            b.emit(&[0x1C]); // POPF
        }
    }
    if rng.chance(1, 4) {
        // a routine that re-enables interrupts right before it returns
        b.emit(&[0x08]); // EI
    }
    b.emit(&[0x2C]); // RETI
    b.place(main);
    b.ldsp_imm(prog::STACK_TOP);
    if family == 3 {
        // IE first, the enable bit later; the program switches the enable bit off and on again
        b.emit(&[0x08]);
        b.emit(&[0x02, 0x44, 0x02]);
        b.st_abs_imm(0xF9, 0x01);
    } else {
        // BITS (0xF9), #mask: the key bit, sometimes together with other enable bits
        let mask = *rng.pick(&[0x01u8, 0x01, 0x01, 0x31, 0x3F, 0x03, 0xFF, 0x81, 0xC1, 0x41]);
        b.emit(&[0xFB, mask, 0x5F, 0xF9]);
        b.emit(&[0x08]); // EI
    }
    if family == 4 {
        // a regular stop in the middle of the program: the run is continued with the CONTINUE
        // key; a key press while the machine is stopped must be served after the continue
        b.ld_imm(0, 5);
        b.emit(&[0x01]);
        b.unary(0x44, 0);
    }
    let subs: Vec<_> = (0..2).map(|_| b.label()).collect();
    let o = BodyOpts { statements: 6 + rng.usize(14), ie_changes: family == 2, outputs: true };
    prog::body(&mut b, rng, &o, &subs);
    if family == 2 {
        b.emit(&[0x08]);
    }
    if family == 3 {
        b.st_abs_imm(0xF9, 0x00);
        b.ld_imm(0, 9);
        b.alu(0xB0, 0, 0);
        b.st_abs(prog::DATA_LO, 0);
        b.emit(&[0x02, 0x02]);
        b.st_abs_imm(0xF9, 0x01);
    }
    // make sure every program has a MUL, a DIV, a CALL and a two-byte instruction in its main flow
    b.ld_imm(0, 2 + rng.below(60) as u8);
    b.ld_imm(1, 1 + rng.below(9) as u8);
    b.alu(0xB0, 0, 1);
    b.alu(0xC0, 0, 1);
    b.call(subs[0]);
    b.emit(&[0x02, 0x02]);
    b.emit(&[0x01]); // STOP
    let end = b.label();
    b.place(end);
    b.jr(0, end);
    for s in &subs {
        b.place(*s);
        prog::subroutine(&mut b, rng);
    }
    if b.bytes.len() >= COUNTER as usize {
        return None;
    }
    let image = b.finish()?;
    Some(Prog { image, inputs: [rng.u8(), rng.u8(), rng.u8(), rng.u8()], family })
}

fn build(p: &Prog) -> Machine {
    let mut m = real::blank_machine();
    let mem = m.raw_mut().bus_mut().memory_mut();
    mem[..p.image.len()].copy_from_slice(&p.image);
    m.set_input_fc(p.inputs[0]);
    m.set_input_fd(p.inputs[1]);
    m.set_input_fe(p.inputs[2]);
    m.set_input_ff(p.inputs[3]);
    m
}

fn is_sampling_word(addr: usize) -> bool {
    let w = MicroprogramRam::CONTENT[addr];
    w.contains(Word::MAC1) && w.contains(Word::MAC0) && !w.contains(Word::MAC2) && w.contains(Word::NA0)
}

struct Reference {
    snaps: Vec<Machine>,
    /// (cycle index after which the boundary holds, arch)
    boundaries: Vec<(usize, Arch)>,
    fin: Machine,
    last_sample: usize,
    /// cycle index at which the machine sat in its intermediate regular stop (family 4)
    continued_at: Option<usize>,
    /// the enable mask as the program wrote it: last byte stored to 0xF9 before cycle t (from the
    /// edge log's bus writes), 0 after power-on
    micr_written: Vec<u8>,
}

fn reference_run(p: &Prog) -> Option<Reference> {
    let mut m = build(p);
    let mut snaps = Vec::with_capacity(2048);
    let mut boundaries = vec![];
    let mut last_sample = 0;
    let mut prev_done = m.is_instruction_done();
    verif::set_fuel(Some(10_000));
    verif::arm_edge_log();
    let mut continued_at = None;
    for t in 0..6000 {
        let stopped_midway = m.state() == State::Stopped && p.family == 4 && continued_at.is_none();
        if stopped_midway {
            // the stopped machine is a trigger point of its own: its snapshot is taken below,
            // the CONTINUE key is pressed right before this cycle's clock edge
            continued_at = Some(t);
        } else if m.state() != State::Running {
            break;
        }
        let s = m.verif_snapshot();
        if !s.pending_wait_for_memory && is_sampling_word(s.micro_address) {
            last_sample = t;
        }
        snaps.push(m.clone());
        if stopped_midway {
            m.trigger_key_continue();
        }
        real::edge(&mut m);
        let d = m.is_instruction_done();
        if d && !prev_done {
            boundaries.push((t, real::arch(&m)));
        }
        prev_done = d;
    }
    verif::set_fuel(None);
    let log = verif::take_edge_log();
    if m.state() != State::Stopped || snaps.len() < 80 {
        return None;
    }
    let mut micr_written = Vec::with_capacity(snaps.len());
    let mut cur = 0u8;
    for t in 0..snaps.len() {
        micr_written.push(cur);
        if let Some(ev) = log.get(t) {
            if let Some((0xF9, v)) = ev.bus_write {
                cur = v & 0x3F;
            }
        }
    }
    Some(Reference { snaps, boundaries, fin: m, last_sample, continued_at, micr_written })
}

type V = (String, String);

struct RunOut {
    entries: u32,
    /// instruction ends that sampled a latched request with IE set
    must_enter: u32,
    fin: Machine,
}

/// Run from snapshot `t` with triggers at the given cycles (absolute), until STOP.
fn interrupted_run(r: &Reference, t0: usize, triggers: &[usize], check_entry: bool, rep: &mut Report) -> Result<RunOut, V> {
    let mut m = r.snaps[t0].clone();
    let mut entries = 0u32;
    let mut prev_done = m.is_instruction_done();
    let mut last_boundary_cycle: Option<usize> = r.boundaries.iter().rev().find(|(c, _)| *c < t0).map(|(c, _)| *c);
    let max = r.snaps.len() + 3000;
    verif::set_fuel(Some(max as u64 + 100));
    let mut t = t0;
    let mut reti_trigger = false;
    let mut must_enter = 0u32;
    // cycle of a trigger that was armed and latched and has not met an instruction end yet
    let mut awaiting: Option<usize> = None;
    let mut continued = r.continued_at.map(|c| t0 > c).unwrap_or(true);
    while (m.state() == State::Running || (m.state() == State::Stopped && !continued)) && t < max {
        if triggers.contains(&t) {
            let s = m.verif_snapshot();
            if t != t0 {
                let a = s.micro_address;
                if a == 0x043 || (0x04A..=0x04C).contains(&a) {
                    reti_trigger = true;
                }
            }
            // the first trigger is judged against the mask the program wrote; later ones (the routine
            // may have run in between) against the hooked register
            let enabled = if t == t0 { r.micr_written[t0] & 1 != 0 } else { m.bus().verif_snapshot().micr & 1 != 0 };
            let armed = enabled && real::arch(&m).fr & IE != 0 && s.pending_register_write != Some(4);
            m.trigger_key_interrupt();
            if armed && !m.verif_snapshot().pending_edge_interrupt {
                verif::set_fuel(None);
                return Err(("C04:enabled-trigger-not-latched".into(), format!("key pressed at cycle {} with the enable bit and IE set, but no request is pending afterwards", t)));
            }
            if armed && awaiting.is_none() {
                awaiting = Some(t);
            }
        }
        {
            // an instruction end that samples a latched request with IE set has to enter the routine
            let s = m.verif_snapshot();
            if !s.pending_wait_for_memory && is_sampling_word(s.micro_address) {
                let ie = if s.pending_register_write == Some(4) { s.alu_output & IE != 0 } else { real::arch(&m).fr & IE != 0 };
                if let Some(tt) = awaiting.take() {
                    // a request that was latched while enabled stays latched until an instruction end looks at it
                    if ie && !s.pending_edge_interrupt {
                        verif::set_fuel(None);
                        return Err(("C04:latched-request-lost-before-instruction-end".into(), format!("key pressed at cycle {} with the enable bit and IE set and latched; at the next instruction end (cycle {}, IE still set) no request is pending", tt, t)));
                    }
                }
                if s.pending_edge_interrupt && ie {
                    must_enter += 1;
                }
            }
        }
        if m.state() == State::Stopped && !continued {
            continued = true;
            m.trigger_key_continue();
            rep.inc("presses_while_stopped_possible");
        }
        real::edge(&mut m);
        let d = m.is_instruction_done();
        if d && !prev_done {
            let a = real::arch(&m);
            if a.r[3] == 2 {
                entries += 1;
                if check_entry && entries == 1 {
                    // the instruction that was interrupted started at last_boundary_cycle in both runs
                    let next = match last_boundary_cycle {
                        Some(c) => r.boundaries.iter().position(|(bc, _)| *bc == c).and_then(|i| r.boundaries.get(i + 1)),
                        None => r.boundaries.get(0),
                    };
                    if let Some((_, an)) = next {
                        let mem = m.bus().memory();
                        let sp = a.sp as usize;
                        let problem = if a.sp != an.sp.wrapping_sub(2) {
                            Some(format!("SP at entry {:#04x}, expected {:#04x} - 2", a.sp, an.sp))
                        } else if sp + 1 >= 0xF0 {
                            None
                        } else if mem[sp] != an.r[3] {
                            Some(format!("return address on the stack {:#04x}, address of the next instruction {:#04x}", mem[sp], an.r[3]))
                        } else if mem[sp + 1] != an.fr {
                            Some(format!("flag register on the stack {:#04x}, flag register before entry {:#04x}", mem[sp + 1], an.fr))
                        } else if a.fr & IE != 0 {
                            Some("interrupt-enable flag still set inside the routine".to_string())
                        } else if a.fr & 0x07 != an.fr & 0x07 {
                            Some("C/Z/N changed by the entry sequence".to_string())
                        } else if a.r[..3] != an.r[..3] {
                            Some("R0-R2 changed by the entry sequence".to_string())
                        } else {
                            None
                        };
                        if let Some(why) = problem {
                            verif::set_fuel(None);
                            return Err(("C04:entry-state".into(), why));
                        }
                        rep.inc("entry_states_checked");
                    }
                }
            }
            last_boundary_cycle = Some(t);
        }
        prev_done = d;
        t += 1;
    }
    verif::set_fuel(None);
    if reti_trigger {
        rep.inc("second_trigger_during_reti");
    }
    if m.state() != State::Stopped {
        return Err(("C04:interrupted-run-does-not-stop".into(), format!("the interrupted run ended {} after {} cycles, the uninterrupted run stops regularly", real::state_name(m.state()), t - t0)));
    }
    Ok(RunOut { entries, must_enter, fin: m })
}

fn compare_final(r: &Reference, out: &RunOut) -> Option<V> {
    let (a, b) = (real::arch(&r.fin), real::arch(&out.fin));
    for i in 0..3 {
        if a.r[i] != b.r[i] {
            return Some(("C04:not-transparent:register".into(), format!("R{} ends as {:#04x}, uninterrupted run {:#04x}", i, b.r[i], a.r[i])));
        }
    }
    if a.r[3] != b.r[3] {
        return Some(("C04:not-transparent:pc".into(), format!("PC ends as {:#04x}, uninterrupted run {:#04x}", b.r[3], a.r[3])));
    }
    if a.fr != b.fr {
        return Some(("C04:not-transparent:flags".into(), format!("FR ends as {:#04x}, uninterrupted run {:#04x}", b.fr, a.fr)));
    }
    if a.sp != b.sp {
        return Some(("C04:not-transparent:sp".into(), format!("SP ends as {:#04x}, uninterrupted run {:#04x}", b.sp, a.sp)));
    }
    if r.fin.bus().output_fe() != out.fin.bus().output_fe() || r.fin.bus().output_ff() != out.fin.bus().output_ff() {
        return Some(("C04:not-transparent:outputs".into(), "output registers differ from the uninterrupted run".into()));
    }
    let (ma, mb) = (r.fin.bus().memory(), out.fin.bus().memory());
    for i in 0..STACK_LO {
        if i != COUNTER as usize && ma[i] != mb[i] {
            return Some(("C04:not-transparent:memory".into(), format!("RAM[{:#04x}] ends as {:#04x}, uninterrupted run {:#04x}", i, mb[i], ma[i])));
        }
    }
    None
}

fn phase_counter(s: &emulator_2a_lib::machine::verif::VerifSnapshot) -> Option<&'static str> {
    let a = s.micro_address;
    if s.pending_wait_for_memory {
        return Some("entered_during_wait");
    }
    Some(match a {
        0x165..=0x168 => "entered_during_mul",
        0x187 | 0x188 => "entered_during_div",
        0x042 | 0x046..=0x049 => "entered_during_call",
        0x021 | 0x026 | 0x027 if s.instruction_register == 0x17 => "entered_during_ret",
        0x1E0..=0x1E6 => "entered_during_two_byte",
        0x030..=0x035 | 0x050..=0x057 | 0x070..=0x078 | 0x0B0..=0x0BE | 0x0D0..=0x0DF | 0x0CC..=0x0CF => "entered_during_two_byte",
        0x002 | 0x004 => "entered_during_ei",
        _ => return None,
    })
}

fn witness(p: &Prog, triggers: &[usize]) -> J {
    obj![("image", p.image.clone()), ("image_hex", hex(&p.image)), ("inputs", p.inputs.to_vec()), ("family", p.family), ("trigger_cycles", triggers.to_vec())]
}

fn check_program(p: &Prog, rng: &mut Rng, quick: bool, rep: &mut Report, only: Option<&[usize]>) {
    let r = match catch(|| reference_run(p)) {
        Ok(Some(r)) => r,
        Ok(None) => {
            rep.inc("programs_discarded");
            return;
        }
        Err(pn) => {
            rep.inc("programs_discarded");
            let _ = pn;
            return;
        }
    };
    rep.inc("programs");
    let t_len = r.snaps.len();
    let mut one = |triggers: &[usize], single: bool, rep: &mut Report| {
        let t0 = triggers[0];
        let snap0 = r.snaps[t0].verif_snapshot();
        let fr0 = real::arch(&r.snaps[t0]).fr;
        let micr0 = r.micr_written[t0] & 1 != 0;
        let res = catch(|| {
            let mut local = Report::new();
            let out = interrupted_run(&r, t0, triggers, single, &mut local);
            (out, local)
        });
        let (out, local) = match res {
            Ok(x) => x,
            Err(pn) => {
                let sig = if pn.is_fuel() { "C04:no-return".to_string() } else { format!("C04:panic:{}", pn.site()) };
                rep.violate(&sig, pn.msg, witness(p, triggers));
                return;
            }
        };
        rep.merge(local);
        rep.evaluations += 1;
        let out = match out {
            Ok(o) => o,
            Err((sig, what)) => {
                rep.violate(&sig, format!("trigger at cycle(s) {:?}: {}", triggers, what), witness(p, triggers));
                return;
            }
        };
        let counted = out.fin.bus().memory()[COUNTER as usize] as u32;
        if counted != out.entries {
            rep.violate("C04:count-mismatch", format!("routine counted {} entries, {} entries observed at address 2", counted, out.entries), witness(p, triggers));
            return;
        }
        if out.entries != out.must_enter {
            rep.violate("C04:entries-differ-from-sampled-requests", format!("triggers at {:?}: {} instruction end(s) sampled a latched request with IE set, but the routine was entered {} time(s)", triggers, out.must_enter, out.entries), witness(p, triggers));
            return;
        }
        if out.entries as usize > triggers.len() {
            rep.violate("C04:entered-more-than-triggered", format!("{} trigger(s) at {:?} but the routine was entered {} times", triggers.len(), triggers, out.entries), witness(p, triggers));
            return;
        }
        if single {
            rep.inc("trigger_points");
            let armed = micr0 && fr0 & IE != 0;
            if !micr0 {
                rep.inc("expected_zero_checked");
                if fr0 & IE != 0 {
                    rep.inc("expected_zero_with_ie_set");
                }
                if out.entries != 0 {
                    rep.violate("C04:entered-while-disabled", format!("key pressed at cycle {} while the key-edge enable bit is clear, routine entered {} time(s)", t0, out.entries), witness(p, triggers));
                    return;
                }
            } else if armed && p.family != 2 && t0 <= r.last_sample {
                rep.inc("entries_checked");
                if out.entries != 1 {
                    rep.violate("C04:not-entered-exactly-once", format!("key pressed at cycle {} with enable bit and IE set, routine entered {} time(s)", t0, out.entries), witness(p, triggers));
                    return;
                }
            } else {
                rep.inc("unspecified_count_cases");
            }
            if out.entries >= 1 {
                if let Some(k) = phase_counter(&snap0) {
                    rep.inc(k);
                }
            }
            rep.class(&[snap0.micro_address as u64, snap0.pending_wait_for_memory as u64, out.entries as u64]);
        } else {
            rep.inc("pair_runs");
            if out.entries > 1 {
                rep.inc("pair_runs_with_two_entries");
            }
        }
        if let Some((sig, what)) = compare_final(&r, &out) {
            rep.violate(&sig, format!("trigger at cycle(s) {:?}: {}", triggers, what), witness(p, triggers));
        }
    };
    if let Some(tr) = only {
        if tr.iter().all(|t| *t < t_len) && !tr.is_empty() {
            one(tr, tr.len() == 1, rep);
        }
        return;
    }
    // every cycle as a single trigger
    for t in 0..t_len {
        one(&[t], true, rep);
    }
    // pairs in a sliding window; some first triggers are placed where a request is latched but
    // dropped (enable bit set, IE clear)
    let dropped: Vec<usize> = (0..t_len).filter(|t| (r.micr_written[*t] & 1 != 0) && real::arch(&r.snaps[*t]).fr & IE == 0).collect();
    let pair_starts = if quick { 5 } else { 40 };
    for k in 0..pair_starts {
        let t1 = if k % 2 == 0 && !dropped.is_empty() { dropped[rng.usize(dropped.len())] } else { rng.usize(t_len) };
        let w = 120;
        for d in 1..w {
            if t1 + d < t_len + 40 {
                one(&[t1, t1 + d], false, rep);
            }
        }
    }
}

pub fn run(ctx: &Ctx) -> Report {
    let n = ctx.size(15_000, 60_000) as usize;
    let quick = ctx.quick();
    par_items(ctx.threads, n, ctx.seed, move |i, seed, rep| {
        let mut rng = Rng::new(seed);
        let family = match i % 8 {
            3 => 2,
            7 => 3,
            5 => 4,
            _ => 1,
        };
        let p = match gen_program(&mut rng, family) {
            Some(p) => p,
            None => {
                rep.inc("programs_discarded");
                return;
            }
        };
        if i < 2 {
            rep.sample(obj![("family", p.family), ("image_hex", hex(&p.image)), ("every_cycle_used_as_trigger", true)]);
        }
        check_program(&p, &mut rng, quick, rep, None);
    })
}

pub fn replay(_ctx: &Ctx, w: &J) -> Report {
    let mut rep = Report::new();
    let image = w.get("image").and_then(|v| v.bytes()).unwrap_or_default();
    let inp = w.get("inputs").and_then(|v| v.bytes()).unwrap_or(vec![0; 4]);
    let p = Prog { image, inputs: [inp[0], inp[1], inp[2], inp[3]], family: w.get("family").and_then(|v| v.as_i64()).unwrap_or(1) as u8 };
    let tr: Vec<usize> = w.get("trigger_cycles").and_then(|v| v.as_arr()).map(|a| a.iter().filter_map(|x| x.as_u64()).map(|x| x as usize).collect()).unwrap_or_default();
    let mut rng = Rng::new(1);
    check_program(&p, &mut rng, true, &mut rep, Some(&tr));
    rep
}
