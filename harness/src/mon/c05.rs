//! C05 — stack/PC supervision and the halt states are exact and absorbing.
//! Invariants checked after every single clock edge; band table and
//! predicates are the monitor's own.
use crate::json::J;
use crate::mon::c01::{random_program, Init};
use crate::real;
use crate::report::{Meta, Report};
use crate::rng::Rng;
use crate::util::{catch, hex, par_items};
use crate::{obj, Ctx};
use emulator_2a_lib::machine::{verif, Machine, MachineConfig, MicroprogramRam, State, StepMode, Word};
use emulator_2a_lib::compiler::ByteCode;
use emulator_2a_lib::parser::{Line, Programsize, Stacksize};

pub fn meta() -> Meta {
    Meta {
        id: "C05",
        rule: "5 stack sizes x program-size limits {auto-without-program, 0, 1, small, image size, 255, random} x programs (random opcode-biased images, LDSP to every value followed by PUSH/POP walks through each band edge from both sides, recursion, jumps and fall-through to every address, stores of 0x00/0x01 ahead of the PC); after EVERY clock edge: Running implies SP outside the band / below 0xF0 and PC within the limit; invalid registers imply ErrorStopped; halts only for a listed reason (and always for one); every halted state reached is exercised with further clock edges in both step modes, key interrupts, input and board setters (machine must stay == its clone / halted) and continue (next opcode loaded is the byte after STOP). distinct_nontrivial counts distinct (stack size, limit class, halt cause, SP direction) classes observed",
        exhaustive: false,
        assumptions: vec!["'opcode fetched' means: the byte read by a fetch step is loaded into the instruction register (first and second opcode bytes alike)"],
        floors: vec![
            ("edges_checked", 10_000_000),
            ("band_entry_from_above", 5),
            ("band_entry_from_below", 5),
            ("sp_above_f0_stops", 100),
            ("pc_limit_stops", 1_000),
            ("fetch_00_stops", 1_000),
            ("fetch_01_stops", 1_000),
            ("halted_states_exercised", 10_000),
            ("continues_checked", 500),
            ("running_runs_without_halt", 100),
        ],
    }
}

#[derive(Clone, Copy, Debug, PartialEq)]
pub enum Limit {
    Auto,
    Size(u8),
}

fn sp_valid(ss: u8, sp: u8) -> bool {
    if sp >= 0xF0 {
        return false;
    }
    let band = match ss {
        1 => Some(0xD1..=0xDE),
        2 => Some(0xC1..=0xCE),
        3 => Some(0xB1..=0xBE),
        4 => Some(0xA1..=0xAE),
        _ => None,
    };
    match band {
        Some(b) => !b.contains(&sp),
        None => true,
    }
}

fn pc_valid(l: Limit, pc: u8) -> bool {
    match l {
        Limit::Auto => pc == 0,
        Limit::Size(n) => pc <= n,
    }
}

/// The word that loads a *first* opcode byte (an instruction fetch, MAC3 set).
fn is_first_fetch_word(addr: usize) -> bool {
    is_ir_load_word(addr) && MicroprogramRam::CONTENT[addr].contains(Word::MAC3)
}

fn is_ir_load_word(addr: usize) -> bool {
    let w = MicroprogramRam::CONTENT[addr];
    w.contains(Word::MAC0) && w.contains(Word::MAC2) && !w.contains(Word::MAC1)
}

pub struct Case {
    pub init: Init,
    pub ss: u8,
    pub limit: Limit,
    pub edges: usize,
    pub stim_seed: u64,
    /// configure the limits the way a user does: load a first program that states them, then load
    /// the program under test with *STACKSIZE NOSET / *PROGRAMSIZE NOSET (which keep the settings)
    pub via_load: bool,
}

impl Case {
    fn to_json(&self) -> J {
        let mut j = self.init.to_json(0);
        j.set("stacksize_index_0_16_32_48_64", J::from(self.ss));
        j.set("limit", match self.limit {
            Limit::Auto => J::from("auto"),
            Limit::Size(n) => J::from(n),
        });
        j.set("edges", J::from(self.edges));
        j.set("stim_seed", J::Int(self.stim_seed as i64));
        j.set("via_load", J::Bool(self.via_load));
        j
    }
    fn from_json(j: &J) -> Case {
        let (init, _) = Init::from_json(j);
        Case {
            init,
            ss: j.get("stacksize_index_0_16_32_48_64").and_then(|v| v.as_i64()).unwrap_or(0) as u8,
            limit: match j.get("limit") {
                Some(J::Int(n)) => Limit::Size(*n as u8),
                _ => Limit::Auto,
            },
            edges: j.get("edges").and_then(|v| v.as_u64()).unwrap_or(1000) as usize,
            stim_seed: j.get("stim_seed").and_then(|v| v.as_i64()).unwrap_or(0) as u64,
            via_load: j.get("via_load").and_then(|v| v.as_bool()).unwrap_or(false),
        }
    }
    fn build(&self) -> Machine {
        let mut m = Machine::new(MachineConfig::default());
        match (self.via_load, self.limit) {
            (true, Limit::Size(n)) => {
                let first = ByteCode { lines: vec![(Line::Empty(None), vec![0x02, 0x01])], stacksize: real::stacksize_of(self.ss), programsize: Programsize::Size(n) };
                m.load(first);
                let image_len = self.init.ram.iter().rposition(|b| *b != 0).map(|p| p + 1).unwrap_or(0);
                let second = ByteCode { lines: vec![(Line::Empty(None), self.init.ram[..image_len].to_vec())], stacksize: Stacksize::NotSet, programsize: Programsize::NotSet };
                m.load(second);
            }
            _ => {
                m.raw_mut().set_stacksize(real::stacksize_of(self.ss));
                m.raw_mut().set_programsize(match self.limit {
                    Limit::Auto => Programsize::Auto,
                    Limit::Size(n) => Programsize::Size(n),
                });
                m.raw_mut().bus_mut().memory_mut().copy_from_slice(&self.init.ram);
            }
        }
        m.set_input_fc(self.init.inputs[0]);
        m.set_input_fd(self.init.inputs[1]);
        m.set_input_fe(self.init.inputs[2]);
        m.set_input_ff(self.init.inputs[3]);
        // R0-R2 and FR may be anything; PC and SP start at their (valid) reset values
        for i in [0usize, 1, 2, 4] {
            real::set_reg(&mut m, i, self.init.regs[i]);
        }
        m
    }
}

type V = (String, String);

/// Exercise a halted machine: nothing but continue/reset may leave the state.
fn exercise_halted(m: &Machine, rng: &mut Rng, rep: &mut Report) -> Option<V> {
    let halted = m.state();
    rep.inc("halted_states_exercised");
    let mut c = m.clone();
    for _ in 0..6 {
        match rng.below(9) {
            0 | 1 | 2 => {
                let n = 1 + rng.below(5);
                for _ in 0..n {
                    real::edge(&mut c);
                }
                if c != *m {
                    return Some(("C05:halt-not-absorbing:clock".into(), format!("clock edges changed a {} machine", real::state_name(halted))));
                }
            }
            3 => {
                let mode = c.step_mode();
                c.set_step_mode(StepMode::Assembly);
                verif::set_fuel(Some(1000));
                c.trigger_key_clock();
                verif::set_fuel(None);
                c.set_step_mode(mode);
                if c != *m {
                    return Some(("C05:halt-not-absorbing:assembly-step".into(), format!("an assembly step changed a {} machine", real::state_name(halted))));
                }
            }
            4 => {
                let mut d = c.clone();
                d.trigger_key_interrupt();
                real::edge(&mut d);
                real::edge(&mut d);
                if d.state() != halted || d.registers() != m.registers() || d.bus().memory()[..] != m.bus().memory()[..] {
                    return Some(("C05:halt-left-by:interrupt".into(), "key interrupt + clock changed state, registers or RAM of a halted machine".into()));
                }
            }
            5 => {
                let mut d = c.clone();
                d.set_input_fc(rng.u8());
                d.set_input_ff(rng.u8());
                d.set_digital_input1(rng.u8());
                d.set_temp(rng.f32_adversarial());
                d.set_jumper1(rng.bool());
                d.set_universal_input_output1(rng.bool());
                real::edge(&mut d);
                if d.state() != halted || d.registers() != m.registers() || d.bus().memory()[..] != m.bus().memory()[..] {
                    return Some(("C05:halt-left-by:inputs".into(), "input/board setters + clock changed state, registers or RAM of a halted machine".into()));
                }
            }
            6 => {
                if halted == State::ErrorStopped {
                    let mut d = c.clone();
                    d.trigger_key_continue();
                    real::edge(&mut d);
                    if d != *m {
                        return Some(("C05:halt-left-by:continue-from-error".into(), "continue key changed an error-stopped machine".into()));
                    }
                }
            }
            7 => {
                let mut d = c.clone();
                d.cpu_reset();
                if d.state() != State::Running {
                    return Some(("C05:reset-does-not-leave-halt".into(), "CPU reset left the machine halted".into()));
                }
            }
            _ => {
                let mut d = c.clone();
                d.master_reset();
                if d.state() != State::Running {
                    return Some(("C05:reset-does-not-leave-halt".into(), "master reset left the machine halted".into()));
                }
            }
        }
    }
    None
}

fn run_case(case: &Case, rep: &mut Report) -> Option<V> {
    let mut edges = 0u64;
    let r = run_case_inner(case, rep, &mut edges);
    rep.count("edges_checked", edges);
    verif::set_fuel(None);
    r
}

fn run_case_inner(case: &Case, rep: &mut Report, edges: &mut u64) -> Option<V> {
    let mut m = case.build();
    let mut rng = Rng::new(case.stim_seed);
    let limit_class = match case.limit {
        Limit::Auto => 0u64,
        Limit::Size(0) => 1,
        Limit::Size(255) => 3,
        Limit::Size(_) => 2,
    };
    let mut halts = 0;
    let mut i = 0usize;
    let mut last_load_first = true;
    verif::set_fuel(Some(case.edges as u64 * 4 + 10_000));
    while i < case.edges {
        i += 1;
        let pre_state = m.state();
        let pre = m.verif_snapshot();
        let pre_arch = real::arch(&m);
        if pre_state != State::Running {
            // (d) absorbing; (e) continue
            if let Some(v) = exercise_halted(&m, &mut rng, rep) {
                return Some(v);
            }
            halts += 1;
            if pre_state == State::Stopped && halts < 4 {
                m.trigger_key_continue();
                if m.state() != State::Running {
                    return Some(("C05:continue-does-not-resume".into(), "continue key left a stopped machine stopped".into()));
                }
                if !last_load_first {
                    // 0x01 loaded as the second byte of a two-byte form: not a STOP instruction,
                    // what follows is outside the statement
                    rep.inc("second_byte_halts_not_judged");
                    continue;
                }
                // (e) the next opcode loaded must be the byte following STOP
                let expect = m.bus().read(pre_arch.r[3]);
                let mut guard = 0;
                loop {
                    let s = m.verif_snapshot();
                    let loads = !s.pending_wait_for_memory && is_ir_load_word(s.micro_address) && m.state() == State::Running;
                    let byte = s.last_bus_read;
                    real::edge(&mut m);
                    *edges += 1;
                    if loads {
                        rep.inc("continues_checked");
                        if byte != expect {
                            return Some(("C05:continue-resumes-elsewhere".into(), format!("after continue the next opcode loaded is {:#04x}, the byte following STOP is {:#04x}", byte, expect)));
                        }
                        break;
                    }
                    guard += 1;
                    if guard > 50 || m.state() != State::Running {
                        break;
                    }
                }
                continue;
            }
            break;
        }
        let will_load = !pre.pending_wait_for_memory && is_ir_load_word(pre.micro_address);
        let loaded = if will_load { Some(pre.last_bus_read) } else { None };
        if will_load {
            last_load_first = is_first_fetch_word(pre.micro_address);
        }
        real::edge(&mut m);
        *edges += 1;
        let a = real::arch(&m);
        let st = m.state();
        let spv = sp_valid(case.ss, a.sp);
        let pcv = pc_valid(case.limit, a.r[3]);
        // (a)
        if st == State::Running && !(spv && pcv) {
            return Some((if !spv { "C05:running-with-invalid-sp".into() } else { "C05:running-with-invalid-pc".into() }, format!("Running with SP={:#04x} PC={:#04x} (stack size index {}, limit {:?})", a.sp, a.r[3], case.ss, case.limit)));
        }
        // (b)
        if !(spv && pcv) && st != State::ErrorStopped {
            let sig = if loaded == Some(0x01) && !pcv && spv { "C05:stop-fetch-masks-pc-limit" } else { "C05:invalid-registers-without-error-stop" };
            return Some((sig.into(), format!("registers invalid (SP={:#04x} PC={:#04x}, limit {:?}) but state is {}", a.sp, a.r[3], case.limit, real::state_name(st))));
        }
        // (c)
        match st {
            State::Running => {
                if loaded == Some(0x00) || loaded == Some(0x01) {
                    return Some(("C05:halt-opcode-ignored".into(), format!("opcode {:#04x} was loaded and the machine keeps running", loaded.unwrap())));
                }
            }
            State::ErrorStopped => {
                let cause = if !spv {
                    if a.sp >= 0xF0 {
                        rep.inc("sp_above_f0_stops");
                        10
                    } else {
                        if a.sp < pre_arch.sp {
                            rep.inc("band_entry_from_above");
                            rep.class(&[77, case.ss as u64, 0]);
                        } else {
                            rep.inc("band_entry_from_below");
                            rep.class(&[77, case.ss as u64, 1]);
                        }
                        11
                    }
                } else if !pcv {
                    rep.inc("pc_limit_stops");
                    12
                } else if loaded == Some(0x00) {
                    rep.inc("fetch_00_stops");
                    13
                } else {
                    return Some(("C05:spurious-error-stop".into(), format!("error stop with valid registers (SP={:#04x} PC={:#04x}) and loaded opcode {:?}", a.sp, a.r[3], loaded)));
                };
                rep.class(&[case.ss as u64, limit_class, cause, (a.sp < pre_arch.sp) as u64]);
            }
            State::Stopped => {
                if loaded != Some(0x01) {
                    return Some(("C05:spurious-stop".into(), format!("regular stop although the opcode loaded at this edge is {:?}", loaded)));
                }
                rep.inc("fetch_01_stops");
                rep.class(&[case.ss as u64, limit_class, 14, 0]);
            }
        }
    }
    verif::set_fuel(None);
    if m.state() == State::Running {
        rep.inc("running_runs_without_halt");
    }
    None
}

fn ldsp_walk(v: u8, rng: &mut Rng) -> Init {
    // LDSP #v ; then a walk of pushes and pops ; JR back
    let mut init = Init::zero();
    let mut code = vec![0xFB, v, 0x40];
    let n = 1 + rng.usize(5);
    if rng.bool() {
        for _ in 0..n {
            code.push(0x10 | rng.below(3) as u8);
        }
        for _ in 0..n + 2 {
            code.push(0x14 | rng.below(3) as u8);
        }
    } else {
        for _ in 0..n {
            code.push(0x14 | rng.below(3) as u8);
        }
        for _ in 0..n + 2 {
            code.push(0x10 | rng.below(3) as u8);
        }
    }
    code.push(0x01);
    code.push(0x02);
    code.push(0x20);
    code.push(0xFC);
    init.ram[..code.len()].copy_from_slice(&code);
    init.regs = [rng.u8(), rng.u8(), rng.u8(), 0, 0, 0];
    init
}

fn recursion(rng: &mut Rng) -> Init {
    let mut init = Init::zero();
    // LDSP #sp ; F: CALL F
    let sp = [0xEF, 0xE0, 0xDF, 0xCF, 0xBF, 0xAF, 0x10, 0xF0][rng.usize(8)];
    let code = [0xFB, sp, 0x40, 0x28, 0x03];
    init.ram[..code.len()].copy_from_slice(&code);
    init
}

fn jump_to(target: u8, rng: &mut Rng) -> Init {
    // fill with NOPs, JMP target, at target: store 0x00/0x01 ahead or STOP
    let mut init = Init::zero();
    for b in init.ram.iter_mut() {
        *b = 0x02;
    }
    init.ram[0] = 0xFB;
    init.ram[1] = target;
    init.ram[2] = 0x13;
    if (target as usize) < 0xE0 && target > 8 {
        let t = target as usize;
        match rng.below(4) {
            0 => init.ram[t] = 0x01,
            1 => init.ram[t] = 0x00,
            2 => {
                // ST (t+6), #0/1 : FB imm 1F addr  -> writes a halt opcode ahead of the PC
                init.ram[t] = 0xFB;
                init.ram[t + 1] = rng.below(2) as u8;
                init.ram[t + 2] = 0x1F;
                init.ram[t + 3] = (t + 6) as u8;
            }
            _ => {}
        }
    }
    init
}

fn gen_case(k: usize, rng: &mut Rng) -> Case {
    let ss = (k % 5) as u8;
    let init = match (k / 5) % 6 {
        0 => ldsp_walk(rng.u8(), rng),
        1 => {
            // walks right at the band edges of this stack size
            let (lo, hi) = match ss {
                1 => (0xD1u8, 0xDEu8),
                2 => (0xC1, 0xCE),
                3 => (0xB1, 0xBE),
                4 => (0xA1, 0xAE),
                _ => (0xEF, 0xF0),
            };
            let v = *rng.pick(&[lo.wrapping_sub(1), lo, hi, hi.wrapping_add(1), 0xEF, 0xF0, 0x00, 0xFF]);
            ldsp_walk(v, rng)
        }
        2 => recursion(rng),
        3 => {
            let mut p = jump_to(rng.u8(), rng);
            if rng.chance(1, 3) {
                // enable the key interrupt first: LDSP, BITS (F9),#mask, EI, then the jump
                let head = [0xFB, 0xEF, 0x40, 0xFB, *rng.pick(&[0x01u8, 0x31, 0x3F]), 0x5F, 0xF9, 0x08];
                let t = p.ram[1];
                p.ram[..head.len()].copy_from_slice(&head);
                p.ram[head.len()] = 0xFB;
                p.ram[head.len() + 1] = t;
                p.ram[head.len() + 2] = 0x13;
            }
            p
        }
        _ => {
            let mut p = random_program(rng);
            if rng.chance(1, 2) {
                // sprinkle stack ops and halts
                for _ in 0..12 {
                    let i = rng.usize(0xF0);
                    p.ram[i] = *rng.pick(&[0x10, 0x11, 0x14, 0x15, 0x18, 0x1C, 0x01, 0x00, 0x28, 0x17]);
                }
            }
            p
        }
    };
    let image_len = init.ram.iter().rposition(|b| *b != 0).map(|p| p + 1).unwrap_or(0) as u8;
    let limit = match rng.below(8) {
        0 => Limit::Auto,
        1 => Limit::Size(0),
        2 => Limit::Size(1),
        3 => Limit::Size(image_len),
        4 => Limit::Size(image_len.saturating_sub(1)),
        5 | 6 => Limit::Size(255),
        _ => Limit::Size(rng.u8()),
    };
    let via_load = rng.chance(1, 4);
    Case { init, ss, limit, edges: 300 + rng.usize(4000), stim_seed: rng.next(), via_load }
}

/// Directed cases that guarantee every floor class.
fn directed(k: usize) -> Option<Case> {
    let mut rng = Rng::new(k as u64);
    let ss = (k % 5) as u8;
    let bands: [(u8, u8); 5] = [(0xEF, 0xF0), (0xD1, 0xDE), (0xC1, 0xCE), (0xB1, 0xBE), (0xA1, 0xAE)];
    let (lo, hi) = bands[ss as usize];
    let mk = |code: &[u8], limit: Limit| {
        let mut init = Init::zero();
        init.ram[..code.len()].copy_from_slice(code);
        Case { init, ss, limit, edges: 400, stim_seed: k as u64, via_load: k % 2 == 1 }
    };
    Some(match k / 5 {
        // from above: LDSP hi+1 ; PUSH R0
        0 => mk(&[0xFB, hi.wrapping_add(1), 0x40, 0x10, 0x02, 0x01], Limit::Size(255)),
        // from below: LDSP lo-1 ; POP R0
        1 => mk(&[0xFB, lo.wrapping_sub(1), 0x40, 0x14, 0x02, 0x01], Limit::Size(255)),
        // SP >= 0xF0: LDSP 0xEF ; POP
        2 => mk(&[0xFB, 0xEF, 0x40, 0x14, 0x14, 0x01], Limit::Size(255)),
        // PC limit: NOPs running past a small limit
        3 => mk(&[0x02, 0x02, 0x02, 0x02, 0x02, 0x02, 0x02, 0x02], Limit::Size(3 + rng.below(3) as u8)),
        // STOP fetched exactly at the limit (the instruction whose PC increment breaks the rule)
        4 => mk(&[0x02, 0x02, 0x01, 0x02, 0x02], Limit::Size(2)),
        // 0x00 fetched
        5 => mk(&[0x02, 0x04, 0x00, 0x02], Limit::Size(255)),
        // STOP, continue, STOP, continue
        6 => mk(&[0x02, 0x01, 0x44, 0x01, 0x45, 0x20, 0xF9], Limit::Size(255)),
        // auto limit without program: first fetch already breaks it
        7 => mk(&[0x02, 0x02], Limit::Auto),
        // an endless loop that never halts
        8 => mk(&[0x44, 0x20, 0xFD], Limit::Size(255)),
        // key interrupt enabled (enable bit + IE), then STOP: the interrupt key must not release the halt
        9 => mk(&[0xFB, 0xEF, 0x40, 0xFB, 0x01, 0x5F, 0xF9, 0x08, 0x02, 0x01, 0x44, 0x01, 0x20, 0xFB], Limit::Size(255)),
        _ => return None,
    })
}

fn record(rep: &mut Report, case: &Case) {
    rep.evaluations += 1;
    let r = catch(|| {
        let mut local = Report::new();
        let v = run_case(case, &mut local);
        (v, local)
    });
    match r {
        Ok((v, local)) => {
            rep.merge(local);
            if let Some((sig, what)) = v {
                rep.violate(&sig, what, case.to_json());
            }
        }
        Err(p) => {
            let sig = if p.is_fuel() { "C05:fuel".to_string() } else { format!("C05:panic:{}", p.site()) };
            rep.violate(&sig, format!("{} at {}:{}", p.msg, p.file, p.line), case.to_json());
        }
    }
}

pub fn run(ctx: &Ctx) -> Report {
    let n = ctx.size(10_000_000, 150_000_000) as usize;
    let batches = (n + 49) / 50;
    par_items(ctx.threads, batches + 1, ctx.seed, move |i, seed, rep| {
        if i == 0 {
            let mut k = 0;
            while let Some(c) = directed(k) {
                record(rep, &c);
                if k == 21 {
                    rep.sample(obj![("kind", "directed: STOP fetched at the program-size limit"), ("program", hex(&c.init.ram[..6])), ("limit", "2"), ("stack_size_index", c.ss)]);
                }
                k += 1;
            }
            return;
        }
        let mut rng = Rng::new(seed);
        for k in 0..50 {
            let c = gen_case(i * 50 + k, &mut rng);
            if i == 1 && k == 1 {
                rep.sample(obj![("kind", "generated"), ("program_first_24_bytes", hex(&c.init.ram[..24])), ("stack_size_index", c.ss), ("limit", format!("{:?}", c.limit)), ("edges", c.edges)]);
            }
            record(rep, &c);
        }
    })
}

pub fn replay(_ctx: &Ctx, w: &J) -> Report {
    let mut rep = Report::new();
    let c = Case::from_json(w);
    record(&mut rep, &c);
    rep
}
