//! Minimal JSON value, writer and parser (no external crates available).
use std::fmt::Write;

#[derive(Clone, Debug, PartialEq)]
pub enum J {
    Null,
    Bool(bool),
    Int(i64),
    Num(f64),
    Str(String),
    Arr(Vec<J>),
    Obj(Vec<(String, J)>),
}

impl From<&str> for J {
    fn from(s: &str) -> J {
        J::Str(s.to_string())
    }
}
impl From<String> for J {
    fn from(s: String) -> J {
        J::Str(s)
    }
}
impl From<bool> for J {
    fn from(b: bool) -> J {
        J::Bool(b)
    }
}
macro_rules! from_int {
    ($($t:ty),*) => {$(impl From<$t> for J { fn from(v: $t) -> J { J::Int(v as i64) } })*};
}
from_int!(u8, u16, u32, u64, usize, i32, i64);
impl From<f64> for J {
    fn from(v: f64) -> J {
        J::Num(v)
    }
}
impl<T: Into<J>> From<Vec<T>> for J {
    fn from(v: Vec<T>) -> J {
        J::Arr(v.into_iter().map(Into::into).collect())
    }
}

/// Build an object: `obj![("a", 1), ("b", "x")]`.
#[macro_export]
macro_rules! obj {
    ($(($k:expr, $v:expr)),* $(,)?) => {
        $crate::json::J::Obj(vec![$(($k.to_string(), $crate::json::J::from($v))),*])
    };
}

impl J {
    pub fn get(&self, key: &str) -> Option<&J> {
        match self {
            J::Obj(kv) => kv.iter().find(|(k, _)| k == key).map(|(_, v)| v),
            _ => None,
        }
    }
    pub fn as_str(&self) -> Option<&str> {
        match self {
            J::Str(s) => Some(s),
            _ => None,
        }
    }
    pub fn as_i64(&self) -> Option<i64> {
        match self {
            J::Int(i) => Some(*i),
            J::Num(f) => Some(*f as i64),
            _ => None,
        }
    }
    pub fn as_u64(&self) -> Option<u64> {
        self.as_i64().map(|v| v as u64)
    }
    pub fn as_bool(&self) -> Option<bool> {
        match self {
            J::Bool(b) => Some(*b),
            _ => None,
        }
    }
    pub fn as_arr(&self) -> Option<&Vec<J>> {
        match self {
            J::Arr(a) => Some(a),
            _ => None,
        }
    }
    pub fn bytes(&self) -> Option<Vec<u8>> {
        self.as_arr()
            .map(|a| a.iter().filter_map(|v| v.as_i64()).map(|v| v as u8).collect())
    }
    pub fn set(&mut self, key: &str, val: J) {
        if let J::Obj(kv) = self {
            if let Some(e) = kv.iter_mut().find(|(k, _)| k == key) {
                e.1 = val;
            } else {
                kv.push((key.to_string(), val));
            }
        }
    }
    pub fn dump(&self) -> String {
        let mut s = String::new();
        self.write(&mut s);
        s
    }
    fn write(&self, out: &mut String) {
        match self {
            J::Null => out.push_str("null"),
            J::Bool(b) => out.push_str(if *b { "true" } else { "false" }),
            J::Int(i) => {
                let _ = write!(out, "{}", i);
            }
            J::Num(f) => {
                if f.is_finite() {
                    let _ = write!(out, "{}", f);
                } else {
                    out.push_str("null");
                }
            }
            J::Str(s) => write_str(out, s),
            J::Arr(a) => {
                out.push('[');
                for (i, v) in a.iter().enumerate() {
                    if i > 0 {
                        out.push(',');
                    }
                    v.write(out);
                }
                out.push(']');
            }
            J::Obj(kv) => {
                out.push('{');
                for (i, (k, v)) in kv.iter().enumerate() {
                    if i > 0 {
                        out.push(',');
                    }
                    write_str(out, k);
                    out.push(':');
                    v.write(out);
                }
                out.push('}');
            }
        }
    }
    pub fn parse(text: &str) -> Result<J, String> {
        let mut p = Parser {
            s: text.as_bytes(),
            i: 0,
        };
        p.ws();
        let v = p.value()?;
        p.ws();
        if p.i != p.s.len() {
            return Err(format!("trailing data at {}", p.i));
        }
        Ok(v)
    }
}

fn write_str(out: &mut String, s: &str) {
    out.push('"');
    for c in s.chars() {
        match c {
            '"' => out.push_str("\\\""),
            '\\' => out.push_str("\\\\"),
            '\n' => out.push_str("\\n"),
            '\r' => out.push_str("\\r"),
            '\t' => out.push_str("\\t"),
            c if (c as u32) < 0x20 => {
                let _ = write!(out, "\\u{:04x}", c as u32);
            }
            c => out.push(c),
        }
    }
    out.push('"');
}

struct Parser<'a> {
    s: &'a [u8],
    i: usize,
}

impl<'a> Parser<'a> {
    fn ws(&mut self) {
        while self.i < self.s.len() && matches!(self.s[self.i], b' ' | b'\n' | b'\r' | b'\t') {
            self.i += 1;
        }
    }
    fn value(&mut self) -> Result<J, String> {
        if self.i >= self.s.len() {
            return Err("eof".into());
        }
        match self.s[self.i] {
            b'n' => self.lit("null", J::Null),
            b't' => self.lit("true", J::Bool(true)),
            b'f' => self.lit("false", J::Bool(false)),
            b'"' => Ok(J::Str(self.string()?)),
            b'[' => {
                self.i += 1;
                let mut a = vec![];
                self.ws();
                if self.peek() == Some(b']') {
                    self.i += 1;
                    return Ok(J::Arr(a));
                }
                loop {
                    self.ws();
                    a.push(self.value()?);
                    self.ws();
                    match self.peek() {
                        Some(b',') => self.i += 1,
                        Some(b']') => {
                            self.i += 1;
                            return Ok(J::Arr(a));
                        }
                        _ => return Err(format!("bad array at {}", self.i)),
                    }
                }
            }
            b'{' => {
                self.i += 1;
                let mut kv = vec![];
                self.ws();
                if self.peek() == Some(b'}') {
                    self.i += 1;
                    return Ok(J::Obj(kv));
                }
                loop {
                    self.ws();
                    let k = self.string()?;
                    self.ws();
                    if self.peek() != Some(b':') {
                        return Err(format!("expected : at {}", self.i));
                    }
                    self.i += 1;
                    self.ws();
                    let v = self.value()?;
                    kv.push((k, v));
                    self.ws();
                    match self.peek() {
                        Some(b',') => self.i += 1,
                        Some(b'}') => {
                            self.i += 1;
                            return Ok(J::Obj(kv));
                        }
                        _ => return Err(format!("bad object at {}", self.i)),
                    }
                }
            }
            _ => self.number(),
        }
    }
    fn peek(&self) -> Option<u8> {
        self.s.get(self.i).copied()
    }
    fn lit(&mut self, word: &str, v: J) -> Result<J, String> {
        if self.s[self.i..].starts_with(word.as_bytes()) {
            self.i += word.len();
            Ok(v)
        } else {
            Err(format!("bad literal at {}", self.i))
        }
    }
    fn number(&mut self) -> Result<J, String> {
        let start = self.i;
        while self.i < self.s.len()
            && matches!(self.s[self.i], b'0'..=b'9' | b'-' | b'+' | b'.' | b'e' | b'E')
        {
            self.i += 1;
        }
        let t = std::str::from_utf8(&self.s[start..self.i]).map_err(|e| e.to_string())?;
        if let Ok(i) = t.parse::<i64>() {
            Ok(J::Int(i))
        } else {
            t.parse::<f64>()
                .map(J::Num)
                .map_err(|_| format!("bad number '{}' at {}", t, start))
        }
    }
    fn string(&mut self) -> Result<String, String> {
        if self.peek() != Some(b'"') {
            return Err(format!("expected string at {}", self.i));
        }
        self.i += 1;
        let mut out: Vec<u8> = vec![];
        loop {
            let c = *self.s.get(self.i).ok_or("eof in string")?;
            self.i += 1;
            match c {
                b'"' => break,
                b'\\' => {
                    let e = *self.s.get(self.i).ok_or("eof in escape")?;
                    self.i += 1;
                    match e {
                        b'n' => out.push(b'\n'),
                        b'r' => out.push(b'\r'),
                        b't' => out.push(b'\t'),
                        b'b' => out.push(8),
                        b'f' => out.push(12),
                        b'u' => {
                            let h = std::str::from_utf8(&self.s[self.i..self.i + 4])
                                .map_err(|e| e.to_string())?;
                            let mut cp = u32::from_str_radix(h, 16).map_err(|e| e.to_string())?;
                            self.i += 4;
                            if (0xD800..0xDC00).contains(&cp)
                                && self.s[self.i..].starts_with(b"\\u")
                            {
                                let h2 = std::str::from_utf8(&self.s[self.i + 2..self.i + 6])
                                    .map_err(|e| e.to_string())?;
                                let lo = u32::from_str_radix(h2, 16).map_err(|e| e.to_string())?;
                                self.i += 6;
                                cp = 0x10000 + ((cp - 0xD800) << 10) + (lo - 0xDC00);
                            }
                            let ch = char::from_u32(cp).unwrap_or('\u{FFFD}');
                            let mut b = [0u8; 4];
                            out.extend_from_slice(ch.encode_utf8(&mut b).as_bytes());
                        }
                        other => out.push(other),
                    }
                }
                c => out.push(c),
            }
        }
        String::from_utf8(out).map_err(|e| e.to_string())
    }
}
