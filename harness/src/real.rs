//! Helpers around the *real* machine: building machines in chosen states,
//! stepping to instruction boundaries with fuel, reading architectural state.
use emulator_2a_lib::machine::{verif, Machine, MachineConfig, RegisterNumber, State};
use emulator_2a_lib::parser::{Programsize, Stacksize};

pub const REGS: [RegisterNumber; 8] = [
    RegisterNumber::R0,
    RegisterNumber::R1,
    RegisterNumber::R2,
    RegisterNumber::R3,
    RegisterNumber::R4,
    RegisterNumber::R5,
    RegisterNumber::R6,
    RegisterNumber::R7,
];

/// Longest legitimate instruction is DIV 255/1 (about 1 100 edges).
pub const FUEL_PER_INSTRUCTION: u64 = 20_000;

#[derive(Clone, Debug, PartialEq, Eq)]
pub struct Arch {
    pub r: [u8; 4],
    pub fr: u8,
    pub sp: u8,
}

pub fn arch(m: &Machine) -> Arch {
    let c = m.registers().content();
    Arch { r: [c[0], c[1], c[2], c[3]], fr: c[4], sp: c[5] }
}

pub fn set_reg(m: &mut Machine, i: usize, v: u8) {
    m.raw_mut().registers_mut().set(REGS[i], v);
}

pub fn set_arch(m: &mut Machine, a: &Arch) {
    for i in 0..4 {
        set_reg(m, i, a.r[i]);
    }
    set_reg(m, 4, a.fr);
    set_reg(m, 5, a.sp);
}

pub fn stacksize_of(i: u8) -> Stacksize {
    match i {
        0 => Stacksize::_0,
        1 => Stacksize::_16,
        2 => Stacksize::_32,
        3 => Stacksize::_48,
        _ => Stacksize::_64,
    }
}

/// A machine without supervision interference: stack size 0, program size 255.
pub fn blank_machine() -> Machine {
    let mut m = Machine::new(MachineConfig::default());
    m.raw_mut().set_stacksize(Stacksize::_0);
    m.raw_mut().set_programsize(Programsize::Size(255));
    m
}

pub fn edge(m: &mut Machine) {
    m.raw_mut().trigger_clock_edge();
}

#[derive(Clone, Copy, Debug, PartialEq, Eq)]
pub enum Adv {
    /// A new instruction boundary was reached (fetch word executed); edges used.
    Boundary(u64),
    /// The machine left Running; edges used.
    Halted(u64),
}

/// From reset (or any state whose current word is not an executed fetch)
/// clock until the first fetch word has executed.
pub fn to_first_boundary(m: &mut Machine) -> Adv {
    let mut n = 0;
    verif::set_fuel(Some(FUEL_PER_INSTRUCTION));
    while !m.is_instruction_done() && m.state() == State::Running {
        edge(m);
        n += 1;
    }
    verif::set_fuel(None);
    if m.state() == State::Running {
        Adv::Boundary(n)
    } else {
        Adv::Halted(n)
    }
}

/// From a boundary, clock single edges until the next boundary. Panics with
/// the fuel payload when the instruction does not complete.
pub fn to_next_boundary(m: &mut Machine) -> Adv {
    let mut n = 0;
    verif::set_fuel(Some(FUEL_PER_INSTRUCTION));
    while m.is_instruction_done() && m.state() == State::Running {
        edge(m);
        n += 1;
    }
    while !m.is_instruction_done() && m.state() == State::Running {
        edge(m);
        n += 1;
    }
    verif::set_fuel(None);
    if m.state() == State::Running {
        Adv::Boundary(n)
    } else {
        Adv::Halted(n)
    }
}

pub fn state_name(s: State) -> &'static str {
    match s {
        State::Running => "Running",
        State::Stopped => "Stopped",
        State::ErrorStopped => "ErrorStopped",
    }
}
