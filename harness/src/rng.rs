//! SplitMix64; every random choice in the harness goes through this.
#[derive(Clone, Debug)]
pub struct Rng(pub u64);

pub fn mix(seed: u64, stream: u64) -> u64 {
    let mut r = Rng(seed ^ stream.wrapping_mul(0x9E37_79B9_7F4A_7C15).rotate_left(17));
    r.next();
    r.next()
}

impl Rng {
    pub fn new(seed: u64) -> Self {
        let mut r = Rng(seed.wrapping_add(0x1234_5678_9ABC_DEF1));
        r.next();
        r
    }
    pub fn next(&mut self) -> u64 {
        self.0 = self.0.wrapping_add(0x9E37_79B9_7F4A_7C15);
        let mut z = self.0;
        z = (z ^ (z >> 30)).wrapping_mul(0xBF58_476D_1CE4_E5B9);
        z = (z ^ (z >> 27)).wrapping_mul(0x94D0_49BB_1331_11EB);
        z ^ (z >> 31)
    }
    pub fn u8(&mut self) -> u8 {
        (self.next() >> 24) as u8
    }
    pub fn u32(&mut self) -> u32 {
        (self.next() >> 16) as u32
    }
    /// Uniform in 0..n (n > 0).
    pub fn below(&mut self, n: u64) -> u64 {
        debug_assert!(n > 0);
        ((self.next() >> 11) as u128 * n as u128 >> 53) as u64
    }
    pub fn range(&mut self, lo: u64, hi_incl: u64) -> u64 {
        lo + self.below(hi_incl - lo + 1)
    }
    pub fn usize(&mut self, n: usize) -> usize {
        self.below(n as u64) as usize
    }
    pub fn bool(&mut self) -> bool {
        self.next() >> 63 == 1
    }
    /// True with probability num/den.
    pub fn chance(&mut self, num: u64, den: u64) -> bool {
        self.below(den) < num
    }
    pub fn pick<'a, T>(&mut self, xs: &'a [T]) -> &'a T {
        &xs[self.usize(xs.len())]
    }
    /// Byte biased towards boundary values.
    pub fn byte_biased(&mut self) -> u8 {
        const B: [u8; 16] = [
            0, 1, 2, 0x7F, 0x80, 0x81, 0xFE, 0xFF, 0xEF, 0xF0, 0xF1, 0xFC, 0x0F, 0x10, 0x55, 0xAA,
        ];
        if self.chance(1, 3) {
            *self.pick(&B)
        } else {
            self.u8()
        }
    }
    /// f32 with adversarial bit patterns.
    pub fn f32_adversarial(&mut self) -> f32 {
        match self.below(10) {
            0 => f32::NAN,
            1 => f32::INFINITY,
            2 => f32::NEG_INFINITY,
            3 => -0.0,
            4 => f32::from_bits(self.u32()),
            5 => f32::MIN_POSITIVE / 2.0,
            6 => 5.0,
            7 => (self.below(600) as f32 - 50.0) / 100.0,
            8 => self.below(256) as f32 / 100.0,
            _ => self.below(5_000_001) as f32 / 1_000_000.0,
        }
    }
}
