#!/usr/bin/env python3
"""Confirm and store the output of one round of sub-agents.

  tools/ingest.py <round dir, e.g. /tmp/mut9> <round number> <letter for A> <letter for B> [--jobs N]

For every <dir>/<Cxx>/OUT/{A,B} with patch.diff and demo.rs: runs tools/confirm_mutant.sh in the
property's worktree (properties side by side), and on success copies patch, demo and notes to
/verif/seeded/<Cxx>-<letter>/ with a meta.json whose `what` is the first paragraph of NOTES.md
(to be edited by hand where needed). Demonstrations that are not a demo.rs are listed as TODO.
"""
import json
import os
import re
import shutil
import subprocess
import sys
from concurrent.futures import ThreadPoolExecutor

VERIF = os.path.dirname(os.path.dirname(os.path.abspath(__file__)))


def first_paragraph(path):
    try:
        t = open(path, errors="replace").read()
    except OSError:
        return ""
    for para in re.split(r"\n\s*\n", t):
        p = " ".join(l.strip() for l in para.splitlines() if l.strip() and not l.lstrip().startswith("#"))
        p = re.sub(r"^\*\*?[Ww]hat:?\*\*?:?\s*", "", p)
        if len(p) > 30:
            return p[:260]
    return ""


def main():
    root, rnd, la, lb = sys.argv[1], int(sys.argv[2]), sys.argv[3], sys.argv[4]
    jobs = int(sys.argv[sys.argv.index("--jobs") + 1]) if "--jobs" in sys.argv else 6
    props = sorted(d for d in os.listdir(root) if re.fullmatch(r"C\d\d", d) and os.path.isdir(os.path.join(root, d, "OUT")))

    def one(prop):
        res = []
        for src, letter in (("A", la), ("B", lb)):
            d = os.path.join(root, prop, "OUT", src)
            if not os.path.isfile(os.path.join(d, "patch.diff")):
                res.append((prop, src, "missing"))
                continue
            if not os.path.isfile(os.path.join(d, "demo.rs")) or os.path.isfile(os.path.join(d, "demo.sh")):
                res.append((prop, src, "TODO: demonstration is not a plain demo.rs"))
                continue
            p = subprocess.run([os.path.join(VERIF, "tools", "confirm_mutant.sh"), os.path.join(root, prop), d], stdout=subprocess.PIPE, stderr=subprocess.STDOUT, text=True, errors="replace")
            line = [l for l in p.stdout.splitlines() if l.startswith("CONFIRM")]
            ok = bool(line) and line[-1].endswith(" OK")
            if ok:
                dest = os.path.join(VERIF, "seeded", "%s-%s" % (prop, letter))
                os.makedirs(dest, exist_ok=True)
                for f in os.listdir(d):
                    if os.path.isfile(os.path.join(d, f)) and not f.endswith(".log"):
                        shutil.copy(os.path.join(d, f), dest)
                json.dump({"property": prop, "what": first_paragraph(os.path.join(d, "NOTES.md")), "needs_to_manifest": "see NOTES.md", "also_run": [], "round": rnd,
                           "written_by": "fresh sub-agent (round %d) given only the property text and a private worktree" % rnd,
                           "confirmed": "tools/confirm_mutant.sh: patch applies on the clean tree; 122 unit + 31 doc tests pass with the change; the demonstration fails with the change and passes without"},
                          open(os.path.join(dest, "meta.json"), "w"), indent=1)
            res.append((prop, src, line[-1] if line else "no CONFIRM line"))
        return res

    with ThreadPoolExecutor(max_workers=jobs) as ex:
        for r in ex.map(one, props):
            for x in r:
                print(*x, flush=True)


if __name__ == "__main__":
    main()
