#!/bin/sh
# usage: tools/allquick.sh [seed...]   -- runs every quick check at the given seeds, prints one line each
cd /verif
for seed in ${@:-1}; do
  for id in C01 C02 C03 C04 C05 C06 C07 C08 C09 C10 C11 C12 C13 C14 C15 C16 C17; do
    start=$(date +%s)
    out=$(VERIF_SEED=$seed ./check $id --tier quick 2>&1)
    rc=$?
    end=$(date +%s)
    echo "seed=$seed $id rc=$rc $((end-start))s $(echo "$out" | grep -E '^(HELD|VIOLATION|INCONCLUSIVE)' | head -2 | cut -c1-160 | tr '\n' ' ')"
  done
done
