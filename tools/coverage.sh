#!/bin/bash
# Reach report: which lines of /repo do the monitors' workloads actually execute?
# Builds the harness and the hooked emulator with -Cinstrument-coverage (nightly, whose sysroot
# ships llvm-cov/llvm-profdata), runs every monitor once in the quick tier at a reduced scale and
# writes /verif/coverage/summary.txt (+ per-file line listings of never-executed lines).
# Not a registered check: it decides nothing, it shows where the workloads do not go.
set -u
VERIF=$(cd "$(dirname "$0")/.." && pwd)
SCALE=${SCALE:-0.15}
IDS=${*:-C01 C02 C03 C04 C05 C06 C07 C08 C09 C10 C11 C12 C13 C14 C15 C16 C17}
export CARGO_NET_OFFLINE=true
BIN=$(rustc +nightly --print sysroot)/lib/rustlib/x86_64-unknown-linux-gnu/bin
T=$VERIF/.target/cov
OUT=$VERIF/coverage
mkdir -p "$T/prof" "$OUT" "$VERIF/.work"
rm -f "$T"/prof/*.profraw
export RUSTFLAGS="-Cinstrument-coverage" LLVM_PROFILE_FILE="$T/prof/build-%p-%m.profraw"
(cd "$VERIF/harness" && CARGO_TARGET_DIR=$T/harness cargo build --offline --profile checked 2>&1 | grep -E "^error|Finished" )
(cd /repo && CARGO_TARGET_DIR=$T/emu CARGO_PROFILE_DEV_OPT_LEVEL=1 cargo build --offline -p emulator-2a --features verif-hooks 2>&1 | grep -E "^error|Finished")
unset RUSTFLAGS LLVM_PROFILE_FILE; rm -f "$T"/prof/build-*.profraw
H=$T/harness/checked/verif-harness
E=$T/emu/debug/2a-emulator
for id in $IDS; do
  LLVM_PROFILE_FILE="$T/prof/$id-%p-%m.profraw" "$H" "$id" --tier quick --seed "${VERIF_SEED:-1}" --scale "$SCALE" \
     --out "$VERIF/.work/cov-$id.json" --work "$VERIF/.work" --replays "$VERIF/.work/cov-replays" --emu "$E" >/dev/null 2>&1
  echo "$id rc=$?"
  rm -f "$VERIF/.work/cov-$id.json"
done
rm -rf "$VERIF/.work/cov-replays"
"$BIN/llvm-profdata" merge -sparse "$T"/prof/*.profraw -o "$T/all.profdata" || exit 1
rm -f "$T"/prof/*.profraw
"$BIN/llvm-cov" report "$H" -object "$E" -instr-profile="$T/all.profdata" \
   --ignore-filename-regex='(\.cargo|rustc|/verif/|library/)' > "$OUT/summary.txt"
"$BIN/llvm-cov" show "$H" -object "$E" -instr-profile="$T/all.profdata" \
   --ignore-filename-regex='(\.cargo|rustc|/verif/|library/)' --show-line-counts-or-regions=false \
   | awk '/^\/repo.*:$/ {f=$0} /^ *[0-9]+\| *0\|/ {print f" "$0}' > "$OUT/never_executed.txt"
cat "$OUT/summary.txt"
wc -l "$OUT/never_executed.txt"
