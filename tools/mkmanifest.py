#!/usr/bin/env python3
"""Regenerates /verif/MANIFEST.json from the table below (single source of truth)."""
import json
import os
import subprocess

VERIF = os.path.dirname(os.path.dirname(os.path.abspath(__file__)))

# id -> (technique, level text, level note, design ref)
CHECKS = {
    "C01": (
        "lock-step differential monitor at instruction boundaries: real CPU vs instruction-level reference interpreter",
        "The real machine is clocked edge by edge; at every instruction boundary R0-R2, PC, FR, SP, all 240 RAM cells, FE/FF and (when touched) the board/timer/UART registers are compared with an independent ISA interpreter. The register-register ALU group (8 opcodes x 16 register pairs x 65 536 values x carry-in) and the unary/JR/flag groups are enumerated completely in both tiers; two-byte forms, stack/CALL/RETI/DEC-memory forms and random instruction sequences are sampled (seeded). Exhaustive for the enumerated groups, exploration for the rest.",
        "Trusted: harness/src/refmodel/isa.rs (DESIGN.md appendix A); bus addresses 0xF0-0xFB are delegated to a clone of the real Bus; instructions that read 0xF9 or use second bytes 0x02-0x0F are executed but not compared.",
        "DESIGN.md §3 C01",
    ),
    "C02": (
        "differential monitor: real translator vs reference encoder, per source line",
        "About 2 100 instruction shapes (every form x operand shape x register) are each placed after random directive prefixes with forward/backward/mixed-case label references, and seeded random multi-line programs go text -> real parser -> real translator; byte groups per line, reported lines, *STACKSIZE/*PROGRAMSIZE and the image are compared with an independent encoder; the image of the text is also compared with the encoding of the program the generator wrote; long sources (260-700 lines) and names that differ only after 11-39 characters are part of the random tier.",
        "Trusted: harness/src/refmodel/asm.rs (instruction table of C02). Programs outside the quantifier (image > 240 bytes, backward .ORG) are not generated here.",
        "DESIGN.md §3 C02",
    ),
    "C03": (
        "generator-knows-the-answer + hand-written recogniser as oracle, catch_unwind for panics",
        "Grammar-derived programs (a ninth of them with the grammar's three line terminators mixed) must parse to exactly the generating AST; a table of directed boundary texts (incl. 0-1 000 label definitions) carries hand-written verdicts; single-token mutants and random strings are judged by an independent three-valued recogniser (accept with AST / reject / unspecified). Every input runs under catch_unwind and every error value is rendered.",
        "Trusted: harness/src/refmodel/grammar.rs and the generator harness/src/gen/asmtext.rs; spellings the documentation leaves open are only checked for 'no panic'.",
        "DESIGN.md §3 C03",
    ),
    "C04": (
        "self-differential monitor: interrupted run vs uninterrupted run of the same real machine, every clock cycle as trigger point",
        "For each generated program the uninterrupted run is recorded cycle by cycle; then every cycle (and pairs of cycles in a window) is used as key-interrupt trigger by resuming from the per-cycle snapshot. Entry count, stack contents and IE at entry and the complete final state (registers, flags, SP, PC, outputs, live RAM) are compared. Exhaustive over trigger cycles per program, sampled over programs.",
        "Trusted: the uninterrupted run (its own correctness is C01's); the enable bit is what the program last stored to 0xF9 according to the edge log. Requests latched while IE is clear or while another is latched are unspecified: only entries <= triggers and transparency are asserted.",
        "DESIGN.md §3 C04",
    ),
    "C05": (
        "invariant monitor evaluated after every single clock edge (hooked sequencer state)",
        "5 stack sizes x program-size limit classes x directed and random programs; after every edge the monitor's own band/limit predicates are evaluated against the registers and the reported state (no Running with invalid registers, halt exactly for the listed reasons), and every halted state reached is stressed with clock edges in both step modes, interrupts, setters, continue and resets.",
        "Trusted: the monitor's band table. 'Opcode fetched' = byte loaded into the instruction register; halts caused by 0x00/0x01 as SECOND byte of a two-byte form are accepted but not required.",
        "DESIGN.md §3 C05",
    ),
    "C06": (
        "crash monitor: catch_unwind around translator and loader in process, exit status of the real binary at process level",
        "Programs from the grammar generator without layout restrictions (any label case, DEC operands, .ORG anywhere, images beyond 256 bytes); whatever the real parser accepts is compiled and loaded under catch_unwind - into a new machine and into a machine that already held the previous programs of its batch - a sample goes through `2a-emulator verify` / `run`, and samples are loaded one after the other through the `load` command of the real interactive session (hook H5). Two crash families are genuine open defects and are listed in known_findings.json by (layout class, panic site).",
        "Trusted: nothing but the classification of a panicking program as well-formed / backward-.ORG / larger-than-RAM by the harness's own layout rules.",
        "DESIGN.md §3 C06",
    ),
    "C07": (
        "invariant monitor on hooked state after every prefix of random histories + lock-step comparison with a fresh machine",
        "Random histories over loads, clock edges in both step modes, interrupts, continue, resets, input and board setters; after every prefix each reset kind is applied to a clone and the documented post-state is checked field by field (getters + snapshot hooks); a follow-up program is loaded and run cycle for cycle against a newly created machine; reset clones are also paired with a new Machine given a copy of their RawMachine and must react alike to 24 clock keys (state outside what a reset restores).",
        "Trusted: the list of power-on values in DESIGN.md §3 C07. MISR/USR/UART data and board status bits are not asserted.",
        "DESIGN.md §3 C07",
    ),
    "C08": (
        "exhaustive differential monitor: real ALU vs reference function table",
        "All 2 097 152 input points (16 functions x 256 x 256 x carry-in) are pushed through the real AluOutput::from_input in both tiers and compared field by field with an independently written function table; a finite space enumerated completely.",
        "Trusted: harness/src/refmodel/alu.rs (AluSelect doc comments + statement of C08).",
        "DESIGN.md §3 C08",
    ),
    "C09": (
        "control-flow graph extracted through the real next-address code (forced states, one real clock edge each) + offline graph checker; concrete loop runs",
        "All 512 micro-addresses x 256 IR values x 16 flag nibbles x 6 ALU condition outcomes x pending interrupt (and all 256 loaded bytes at opcode-loading words) are forced on the real machine; the start node after CPU reset, master reset and load must be one and the same from about 19 000 forced states; the successor graph is checked for zero words, cycles, completion of exactly the defined first bytes and defined second bytes, and routine containment; MUL and DIV run concretely for all 65 536 operand pairs. Exhaustive.",
        "Trusted: hook verif_force_control; only the successor function is abstracted.",
        "DESIGN.md §3 C09",
    ),
    "C10": (
        "reference-model monitor (address-map model), exhaustive single operations + random sequences",
        "All 256 addresses x 256 values written to a randomised bus and all 256 addresses read back; all 65 536 ordered write-address pairs; random read/write/set-input sequences checked after every operation against a map model; reads must leave the bus == its clone; and reads issued by the running CPU (every read-only instruction form x source x every byte value x interrupt-status state) must leave the whole bus equal to its copy taken before the instruction.",
        "Trusted: the map model (only what C10 states).",
        "DESIGN.md §3 C10",
    ),
    "C11": (
        "offline checker over the clock edge log of one assembly step + full-state equality with a clock-stepped clone; fuel for termination",
        "States sampled along random-program runs (every cycle of short runs; interrupts latched, waits pending, halted machines): the edge log of one assembly step must end exactly at the next boundary/halt, the stepped clone must equal a clone given the same number of single edges, random mode switches must not alter a run, and every opcode byte / second byte must let the step return (bounded progress, 20 000 edges).",
        "Trusted: hook edge log. 'Returns' is restated as 'returns within 20 000 clock edges'.",
        "DESIGN.md §3 C11",
    ),
    "C12": (
        "reference-loop monitor: harness steps the documented loop itself and compares full machine equality; CLI stdout/exit status checked at process level",
        "Generated programs x budgets (0, 1, around the halting cycle, random) x interrupt/reset multisets x configurations: RunnerConfig::run() vs the harness's stepping of a machine configured through the single setters (Machine ==, cycle count); verify() over all 8 subsets x match/mismatch; the real binary with arguments in all three radices: printed values and exit status; voltages incl. NaN and infinity.",
        "Trusted: the real parser/translator to obtain the byte code (C02/C03). Interrupt before reset when both fall on one cycle.",
        "DESIGN.md §3 C12",
    ),
    "C13": (
        "crash monitor: catch_unwind + clock-edge fuel around random interleavings; post-run liveness probes",
        "RAM images (uniform, opcode-biased, I/O-biased, constant fills) x 5 stack sizes x limits x stimulus schedules incl. NaN/inf voltages, every call under catch_unwind in the overflow-checking profile; afterwards all getters, all bus reads and decoders are exercised and the machine stepped on; direct bus writes/reads of every address x value; long runs (70 000-140 000 edges) after arbitrary stores to the interrupt mask, timer and board registers.",
        "Sanitizers/Miri are not used: the repository has no unsafe code, threads or FFI (DESIGN.md §0).",
        "DESIGN.md §3 C13",
    ),
    "C14": (
        "per-operation pre/post relation monitor (pre-state read from the real board) + f32 bit-pattern sweep",
        "Random interleavings of writes to 0xF0-0xF3 and external setters with adversarial f32 values, every relation of C14 checked after each operation; clamp rule swept over f32 bit patterns (every 256th pattern + boundaries in quick, all 2^32 in thorough).",
        "Trusted: the relations as written in DESIGN.md §3 C14 (fan supply = DAC1 output; UOR/UDR/ICR writes are not external changes).",
        "DESIGN.md §3 C14",
    ),
    "C15": (
        "offline checker over the clock edge log between instruction boundaries vs documented path lengths",
        "Every instruction of the shared single-instruction/sequence workload (MUL/DIV over all 65 536 pairs): executed steps = documented path length, accesses in documented order, exactly one wait after each RAM-touching step and none otherwise, wait edges change nothing but the flag, same cost inside an assembly step.",
        "Trusted: path lengths of DESIGN.md appendix A (refmodel::isa).",
        "DESIGN.md §3 C15",
    ),
    "C17": (
        "headless driver of the real Tui in a child process (hook H5) + line-editor model, documented command grammar (three-valued) and shadow Machine driven by the library calls",
        "All key scripts up to length 3 over a 24-key alphabet, seeded random scripts up to 200 keys (multi-byte/wide characters, editing keys, chords, documented / must-reject / hostile command lines, load of fixtures) at random terminal sizes with resizes, session scripts (load, clock keys, chords, `next N` up to beyond 65 535, history recall), history walks past both ends, cursor walks over lines as wide as the input field, lines beyond 1 024 characters, and every terminal size 1x1..250x100; after every key: no panic in event handling or drawing, cursor inside the text, editor state, history, notification, quit flag, UI flags and the complete machine dump compared with the models.",
        "Trusted: harness/src/refmodel/cmd.rs (documented command grammar), the editor model in mon/c17.rs, hook H5 (driver bypasses the crossterm backend; auto-run = 10 cycles per frame).",
        "DESIGN.md §3 C17",
    ),
    "C16": (
        "round-trip monitor: parse -> Display -> parse, AST equality; the same over the translator's listing and over the program pane of the real interactive session (hook H5)",
        "Seeded programs from the grammar generator (all forms/values, Unicode comments, long data lines, 40 labels, header comments) are parsed, rendered and parsed again; the ASTs must be equal line by line. Samples are loaded through the `load` command of the headless session (also under one file name whose content is replaced between loads) and the pane lines reported by the driver must parse back to the program just loaded.",
        "Trusted: nothing beyond the real parser on its first pass (checked by C03); hook H5 reports the pane's lines verbatim.",
        "DESIGN.md §3 C16",
    ),
}

NOT_YET = {}


def main():
    props = [json.loads(l) for l in open(os.path.join(VERIF, "properties.jsonl"))]
    ids = [p["id"] for p in props]
    hooks_commits = []
    try:
        out = subprocess.run(["git", "-C", "/repo", "log", "--format=%h %s"], stdout=subprocess.PIPE, text=True).stdout
        hooks_commits = [l.split()[0] for l in out.splitlines() if l.split(" ", 1)[1].startswith("verif-hooks")]
    except Exception:
        pass
    checks = []
    for pid in ids:
        if pid not in CHECKS:
            continue
        tech, text, note, ref = CHECKS[pid]
        checks.append({
            "property_id": pid,
            "quick_cmd": "./check %s --tier quick" % pid,
            "thorough_cmd": "./check %s --tier thorough" % pid,
            "evidence_file": "/verif/evidence/%s.json" % pid,
            "replay_cmd_template": "./check %s --replay {path}" % pid,
            "engine": "verif-harness",
            "level_claimed": {"category": "exploration", "text": text, "design_ref": ref},
            "level_note": note,
            "technique": tech,
        })
    na = [{"property_id": pid, "reason": NOT_YET.get(pid, "monitor not built yet in this round (runtime monitoring does apply; see DESIGN.md §3)")}
          for pid in ids if pid not in CHECKS]
    m = {
        "version": 1,
        "setup_cmd": "./check setup",
        "hooks": {
            "guard": "cargo feature verif-hooks (emulator-2a-lib; forwarded by emulator-2a)",
            "enable": "the harness depends on emulator-2a-lib with features=[\"verif-hooks\"]; the CLI/TUI binary is built with `cargo build -p emulator-2a --features verif-hooks` into /verif/.target/emu",
            "baseline_off_cmd": "cd /repo && cargo test --workspace --no-fail-fast --offline",
            "source_commits": hooks_commits,
            "add_only": True,
        },
        "engines": [{
            "name": "verif-harness",
            "path": "/verif/harness",
            "serves_properties": [c["property_id"] for c in checks],
            "kind_free_text": "Rust binary with independent reference models and runtime monitors that drive the real emulator-2a-lib (and the hooked 2a-emulator binary); ./check is the python front end (build, watchdog, known-findings filter, evidence)",
        }],
        "checks": checks,
        "notes": "Technique family: runtime monitoring. Every check rebuilds the harness against /repo's working tree (path dependency), runs the real code under generated or exhaustive workloads and compares what it observes with an independent oracle. Exit 2 with an INCONCLUSIVE line means no verdict (build failure, watchdog, observation floor not met).",
        "not_applicable": na,
    }
    json.dump(m, open(os.path.join(VERIF, "MANIFEST.json"), "w"), indent=1)
    print("MANIFEST.json: %d checks, %d not_applicable" % (len(checks), len(na)))


if __name__ == "__main__":
    main()
