#!/usr/bin/env python3
"""Regenerates /verif/MANIFEST.json from the table below (single source of truth)."""
import json
import os
import subprocess

VERIF = os.path.dirname(os.path.dirname(os.path.abspath(__file__)))

# id -> (technique, level text, level note, design ref)
CHECKS = {
    "C08": (
        "exhaustive differential monitor: real ALU vs reference function table",
        "All 2 097 152 input points (16 functions x 256 x 256 x carry-in) are pushed through the real AluOutput::from_input in both tiers and compared field by field (result, carry, zero, negative) with an independently written function table; a finite space enumerated completely, so for this property the run is a complete decision of the function as compiled in the checked profile (thorough repeats it in the release profile).",
        "Trusted: the reference table harness/src/refmodel/alu.rs (transcribed from the AluSelect doc comments and the property statement).",
        "DESIGN.md §3 C08",
    ),
}

NOT_YET = {}


def main():
    props = [json.loads(l) for l in open(os.path.join(VERIF, "properties.jsonl"))]
    ids = [p["id"] for p in props]
    hooks_commits = []
    try:
        out = subprocess.run(["git", "-C", "/repo", "log", "--format=%h %s"], stdout=subprocess.PIPE, text=True).stdout
        hooks_commits = [l.split()[0] for l in out.splitlines() if l.split(" ", 1)[1].startswith("verif-hooks")]
    except Exception:
        pass
    checks = []
    for pid in ids:
        if pid not in CHECKS:
            continue
        tech, text, note, ref = CHECKS[pid]
        checks.append({
            "property_id": pid,
            "quick_cmd": "./check %s --tier quick" % pid,
            "thorough_cmd": "./check %s --tier thorough" % pid,
            "evidence_file": "/verif/evidence/%s.json" % pid,
            "replay_cmd_template": "./check %s --replay {path}" % pid,
            "engine": "verif-harness",
            "level_claimed": {"category": "exploration", "text": text, "design_ref": ref},
            "level_note": note,
            "technique": tech,
        })
    na = [{"property_id": pid, "reason": NOT_YET.get(pid, "monitor not built yet in this round (runtime monitoring does apply; see DESIGN.md §3)")}
          for pid in ids if pid not in CHECKS]
    m = {
        "version": 1,
        "setup_cmd": "./check setup",
        "hooks": {
            "guard": "cargo feature verif-hooks (emulator-2a-lib; forwarded by emulator-2a)",
            "enable": "the harness depends on emulator-2a-lib with features=[\"verif-hooks\"]; the CLI/TUI binary is built with `cargo build -p emulator-2a --features verif-hooks` into /verif/.target/emu",
            "baseline_off_cmd": "cd /repo && cargo test --workspace --no-fail-fast --offline",
            "source_commits": hooks_commits,
            "add_only": True,
        },
        "engines": [{
            "name": "verif-harness",
            "path": "/verif/harness",
            "serves_properties": [c["property_id"] for c in checks],
            "kind_free_text": "Rust binary with independent reference models and runtime monitors that drive the real emulator-2a-lib (and the hooked 2a-emulator binary); ./check is the python front end (build, watchdog, known-findings filter, evidence)",
        }],
        "checks": checks,
        "notes": "Technique family: runtime monitoring. Every check rebuilds the harness against /repo's working tree (path dependency), runs the real code under generated or exhaustive workloads and compares what it observes with an independent oracle. Exit 2 with an INCONCLUSIVE line means no verdict (build failure, watchdog, observation floor not met).",
        "not_applicable": na,
    }
    json.dump(m, open(os.path.join(VERIF, "MANIFEST.json"), "w"), indent=1)
    print("MANIFEST.json: %d checks, %d not_applicable" % (len(checks), len(na)))


if __name__ == "__main__":
    main()
