#!/usr/bin/env python3
"""Applies every seeded change under /verif/seeded/<name>/patch.diff to /repo, runs quick
checks, restores /repo and writes /verif/seeded/RESULTS.md + RESULTS.json.

usage: tools/seeded_report.py [--all-checks] [--tier quick|thorough] [--scratch [--jobs N]] [name ...]
By default each change is run against the check of the property it targets plus the
checks listed in its meta.json under "also_run".
With --scratch nothing is applied to /repo: every change gets its own scratch worktree and copy
of /verif (tools/trymutant_wt.sh), N of them side by side.
"""
import json
import os
import subprocess
import sys
import time
from concurrent.futures import ThreadPoolExecutor

VERIF = os.path.dirname(os.path.dirname(os.path.abspath(__file__)))
SEEDED = os.path.join(VERIF, "seeded")
ALL = ["C%02d" % i for i in range(1, 18)]


def sh(cmd, **kw):
    return subprocess.run(cmd, stdout=subprocess.PIPE, stderr=subprocess.STDOUT, text=True, errors="replace", **kw)


def main():
    args = sys.argv[1:]
    all_checks = "--all-checks" in args
    tier = "quick"
    if "--tier" in args:
        tier = args[args.index("--tier") + 1]
    scratch = "--scratch" in args
    jobs = int(args[args.index("--jobs") + 1]) if "--jobs" in args else 4
    names = [a for a in args if not a.startswith("--") and a not in ("quick", "thorough") and not a.isdigit()]
    if not names:
        names = sorted(d for d in os.listdir(SEEDED) if os.path.isfile(os.path.join(SEEDED, d, "patch.diff")))
    if not scratch and sh(["git", "-C", "/repo", "diff", "--quiet"]).returncode != 0:
        print("/repo has uncommitted changes; refusing to run")
        return 2
    results = {}
    try:
        prev = json.load(open(os.path.join(SEEDED, "RESULTS.json")))
    except (OSError, ValueError):
        prev = {}
    def one_scratch(name):
        d = os.path.join(SEEDED, name)
        meta = json.load(open(os.path.join(d, "meta.json")))
        checks = ALL if all_checks else [meta["property"]] + meta.get("also_run", [])
        env = dict(os.environ)
        env.setdefault("VERIF_SEED", "1")
        env.update({"TIER": tier, "LINES_SHOWN": "14", "WIDTH": "400"})
        t0 = time.time()
        p = sh([os.path.join(VERIF, "tools", "trymutant_wt.sh"), name] + checks, cwd=VERIF, env=env)
        row = {}
        for cid in checks:
            pre = "%s %s: " % (name, cid)
            ls = [l[len(pre):] for l in p.stdout.splitlines() if l.startswith(pre)]
            verdict = "rc=?"
            if any(l.startswith("VIOLATION") for l in ls):
                verdict = "VIOLATION"
            elif any(l.startswith("INCONCLUSIVE") for l in ls):
                verdict = "inconclusive"
            elif any(l.startswith("HELD") for l in ls) or (ls and all(l.startswith("KNOWN") for l in ls)):
                verdict = "held"
            sigs = [l.strip().split(" ")[0].replace("signature=", "") for l in ls if l.strip().startswith("signature=")]
            row[cid] = {"verdict": verdict, "signatures": sigs[:6]}
        print(name, {c: v["verdict"] for c, v in row.items()}, "%.0fs" % (time.time() - t0), flush=True)
        if "does not apply" in p.stdout:
            return name, {"error": "patch does not apply"}
        return name, {"property": meta["property"], "what": meta.get("what", ""), "checks": row}

    if scratch:
        with ThreadPoolExecutor(max_workers=jobs) as ex:
            for name, r in ex.map(one_scratch, names):
                results[name] = r
        names = []
    for name in names:
        d = os.path.join(SEEDED, name)
        meta = json.load(open(os.path.join(d, "meta.json")))
        checks = ALL if all_checks else [meta["property"]] + meta.get("also_run", [])
        ap = sh(["git", "-C", "/repo", "apply", os.path.join(d, "patch.diff")])
        if ap.returncode != 0:
            results[name] = {"error": "patch does not apply: " + ap.stdout[-300:]}
            continue
        row = {}
        try:
            for cid in checks:
                t0 = time.time()
                env = dict(os.environ)
                env.setdefault("VERIF_SEED", "1")
                p = sh([os.path.join(VERIF, "check"), cid, "--tier", tier], cwd=VERIF, env=env)
                sigs = [l.strip().split(" ")[0].replace("signature=", "") for l in p.stdout.splitlines() if l.strip().startswith("signature=")]
                verdict = {0: "held", 1: "VIOLATION", 2: "inconclusive"}.get(p.returncode, "rc=%d" % p.returncode)
                row[cid] = {"verdict": verdict, "signatures": sigs[:6], "seconds": round(time.time() - t0, 1)}
                print(name, cid, verdict, sigs[:3], flush=True)
        finally:
            sh(["git", "-C", "/repo", "checkout", "--", "."])
            sh(["git", "-C", "/repo", "clean", "-fdq", "emulator-2a-lib/tests"])
        results[name] = {"property": meta["property"], "what": meta.get("what", ""), "checks": row}
    prev.update(results)
    json.dump(prev, open(os.path.join(SEEDED, "RESULTS.json"), "w"), indent=1)
    lines = ["# Seeded changes vs checks (generated by tools/seeded_report.py)", "",
             "| seeded change | breaks | what | caught by (quick, seed 1) | not caught by |", "|---|---|---|---|---|"]
    for name in sorted(prev):
        r = prev[name]
        if "error" in r:
            lines.append("| %s | | %s | | |" % (name, r["error"]))
            continue
        caught = ["%s (%s)" % (c, ", ".join(v["signatures"][:2])) for c, v in sorted(r["checks"].items()) if v["verdict"] == "VIOLATION"]
        missed = [c + ("?" if v["verdict"] != "held" else "") for c, v in sorted(r["checks"].items()) if v["verdict"] != "VIOLATION"]
        lines.append("| %s | %s | %s | %s | %s |" % (name, r["property"], r["what"].replace("|", "/"), "; ".join(caught) or "**none**", " ".join(missed)))
    open(os.path.join(SEEDED, "RESULTS.md"), "w").write("\n".join(lines) + "\n")
    print("written", os.path.join(SEEDED, "RESULTS.md"))
    return 0


if __name__ == "__main__":
    sys.exit(main())
