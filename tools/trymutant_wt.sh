#!/bin/bash
# usage: [EXTRA_PATCH=f] tools/trymutant_wt.sh <seeded name | patch file | none> <ID> [ID ...]
# Like trymutant.sh, but does not touch /repo or /verif: it makes a scratch git worktree of /repo
# with the patch applied and a scratch copy of /verif pointed at it, runs the named checks there
# (quick tier unless TIER=thorough), prints the verdict lines and removes both again.
# Several of these can run side by side (and alongside a `vp run`).
set -u
VERIF=$(cd "$(dirname "$0")/.." && pwd)
p=$1; shift
if [ "$p" = none ]; then name=unchanged; else
[ -f "$p" ] || p=$VERIF/seeded/$p/patch.diff
[ -f "$p" ] || { echo "no patch $p"; exit 2; }
p=$(realpath "$p")
name=$(basename "$(dirname "$p")")
fi
S=${SCRATCH:-/tmp/tm}/$name.$$
mkdir -p "$S"
git -C /repo worktree add -q --detach "$S/repo" HEAD || exit 2
trap 'git -C /repo worktree remove --force "$S/repo" 2>/dev/null; rm -rf "$S"' EXIT
[ -n "${EXTRA_PATCH:-}" ] && git -C "$S/repo" apply "$EXTRA_PATCH"
[ "$p" = none ] || git -C "$S/repo" apply "$p" || { echo "$name: patch does not apply"; exit 2; }
rsync -a --exclude .git --exclude .target --exclude .work --exclude evidence --exclude replays --exclude seeded --exclude coverage "$VERIF/" "$S/verif/"
sed -i "s|^REPO = \"/repo\"|REPO = \"$S/repo\"|" "$S/verif/check"
sed -i "s|path = \"/repo/emulator-2a-lib\"|path = \"$S/repo/emulator-2a-lib\"|" "$S/verif/harness/Cargo.toml"
rc=0
for id in "$@"; do
  out=$(cd "$S/verif" && VERIF_SEED=${VERIF_SEED:-1} ./check "$id" --tier "${TIER:-quick}" 2>&1)
  r=$?
  echo "$out" | grep -E "^(HELD|VIOLATION|INCONCLUSIVE|KNOWN|  signature)" | cut -c1-${WIDTH:-260} | head -${LINES_SHOWN:-8} | sed "s|^|$name $id: |"
  [ $r -ne 0 ] && rc=$r
done
exit $rc
