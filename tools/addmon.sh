#!/bin/sh
# usage: tools/addmon.sh c15   -- registers a monitor module in the harness
set -e
cd /verif/harness
m=$1
grep -q "pub mod $m;" src/mon/mod.rs || echo "pub mod $m;" >> src/mon/mod.rs
sort -o src/mon/mod.rs src/mon/mod.rs
python3 - "$m" <<'PY'
import re,sys
m=sys.argv[1]
p='src/main.rs'
s=open(p).read()
mm=re.search(r"    m!\(([^)]*)\)",s)
mods=[x.strip() for x in mm.group(1).split(',')]
if m not in mods:
    mods.append(m); mods.sort()
    s=s.replace(mm.group(0),"    m!(%s)"%", ".join(mods))
    open(p,'w').write(s)
PY
