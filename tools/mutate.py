#!/usr/bin/env python3
"""Mechanical mutation analysis of the checks (sensitivity measurement, not a registered check).

  tools/mutate.py --n 200 --seed 1 --jobs 4 [--files regex] [--out mutation/RESULTS.jsonl]

Enumerates single-token mutations (relational / logical / arithmetic operator swaps, constants +1,
true<->false, dropped `!`, dropped statements, one flipped bit in a control word, grammar edits) in
the non-test, non-hook source of /repo, samples N of them (stratified by file), and for each one,
in a scratch worktree (never in /repo):
  1. applies it; if the workspace does not build -> "stillborn" (not counted);
  2. runs the repository's own test suite; a failure -> "killed by tests" (not interesting here);
  3. runs the quick checks mapped to the file; if none fires, all remaining quick checks.
One JSON line per mutant is appended to the output file: {id, file, line, op, before, after,
outcome: stillborn|tests|killed|survived|inconclusive, killed_by: [...], verdicts: {...}}.
Survivors are what to look at: equivalent, outside every property, or a gap in a monitor.
"""
import json
import os
import random
import re
import shutil
import subprocess
import sys
import threading
import time
from concurrent.futures import ThreadPoolExecutor

VERIF = os.path.dirname(os.path.dirname(os.path.abspath(__file__)))
REPO = "/repo"
ALL = ["C%02d" % i for i in range(1, 18)]

FILES = {
    "emulator-2a-lib/src/machine/alu.rs": ["C08", "C01"],
    "emulator-2a-lib/src/machine/raw/signals.rs": ["C01", "C09", "C15", "C04", "C05"],
    "emulator-2a-lib/src/machine/raw/mod.rs": ["C01", "C05", "C04", "C07", "C09", "C15", "C11", "C13"],
    "emulator-2a-lib/src/machine/microprogram_ram_content.rs": ["C01", "C09", "C15", "C04"],
    "emulator-2a-lib/src/machine/microprogram_ram.rs": ["C09", "C01"],
    "emulator-2a-lib/src/machine/instruction.rs": ["C01", "C09"],
    "emulator-2a-lib/src/machine/register.rs": ["C01", "C05", "C07"],
    "emulator-2a-lib/src/machine/bus.rs": ["C10", "C01", "C07", "C04", "C13"],
    "emulator-2a-lib/src/machine/board.rs": ["C14", "C10", "C07", "C13"],
    "emulator-2a-lib/src/machine/mod.rs": ["C11", "C07", "C06", "C05", "C12", "C13"],
    "emulator-2a-lib/src/compiler.rs": ["C02", "C06", "C16"],
    "emulator-2a-lib/src/parser/implementation/mod.rs": ["C03", "C02", "C16", "C06"],
    "emulator-2a-lib/src/parser/ast/format.rs": ["C16"],
    "emulator-2a-lib/src/parser/ast/trait_impls.rs": ["C03", "C02", "C16"],
    "emulator-2a-lib/syntax/mrasm.pest": ["C03", "C02", "C16", "C06"],
    "emulator-2a-lib/src/runner/mod.rs": ["C12"],
    "emulator-2a/src/args.rs": ["C12", "C17"],
    "emulator-2a/src/runner/mod.rs": ["C12"],
    "emulator-2a/src/helpers/mod.rs": ["C12", "C06", "C17"],
    "emulator-2a/src/tui/mod.rs": ["C17", "C06", "C16"],
    "emulator-2a/src/tui/input/mod.rs": ["C17"],
    "emulator-2a/src/tui/input/parser.rs": ["C17"],
    "emulator-2a/src/tui/supervisor_wrapper.rs": ["C17", "C11"],
    "emulator-2a/src/tui/interface.rs": ["C17"],
    "emulator-2a/src/tui/program_help_sidebar/program_display.rs": ["C17", "C06", "C16"],
    "emulator-2a/src/tui/program_help_sidebar/mod.rs": ["C17"],
    "emulator-2a/src/tui/board_info_sidebar.rs": ["C17"],
    "emulator-2a/src/tui/show_widgets/memory.rs": ["C17"],
}

SWAPS = [
    (" <= ", " < "), (" < ", " <= "), (" >= ", " > "), (" > ", " >= "), (" == ", " != "), (" != ", " == "),
    (" && ", " || "), (" || ", " && "),
    (" + ", " - "), (" - ", " + "), (" | ", " & "), (" & ", " | "), (" << ", " >> "), (" >> ", " << "),
    ("wrapping_add", "wrapping_sub"), ("wrapping_sub", "wrapping_add"), ("saturating_sub", "saturating_add"),
    (" |= ", " &= "), (" += ", " -= "), (" -= ", " += "),
    ("true", "false"), ("false", "true"),
    (".min(", ".max("), (".max(", ".min("),
    (".is_some()", ".is_none()"), (".is_none()", ".is_some()"),
    (".insert(", ".remove("), (".contains(", ".intersects("),
]
SKIP_LINE = re.compile(r"^\s*(//|#\[|use |pub use |mod |pub mod |trace!|debug!|info!|warn!|error!|\*|/\*)")
GENERIC_HINT = re.compile(r"\b(fn|impl|struct|enum|type|where|trait)\b|::<|->|=>")


def candidates(path, text):
    out = []
    lines = text.split("\n")
    in_test = False
    for i, l in enumerate(lines):
        if "#[cfg(test)]" in l or "#[cfg(feature = \"verif-hooks\")]" in l:
            # test modules sit at the end of the files; a cfg'd item: skip this and the next line
            if "#[cfg(test)]" in l and i + 1 < len(lines) and "mod " in lines[i + 1] and "{" in lines[i + 1]:
                in_test = True
            continue
        if in_test or SKIP_LINE.match(l) or not l.strip():
            continue
        if i > 0 and ("#[cfg(test)]" in lines[i - 1] or "verif-hooks" in lines[i - 1]):
            continue
        code = l.split("//")[0]
        if path.endswith(".pest"):
            for m in re.finditer(r"\^\"", code):
                out.append((i, "pest-case", m.start(), "^\"", "\""))
            for m in re.finditer(r"\{(\d+)(,\s*(\d+))?\}", code):
                a = int(m.group(1))
                out.append((i, "pest-repeat", m.start(), m.group(0), m.group(0).replace(str(a), str(a + 1), 1)))
            for m in re.finditer(r"[+*?]", code):
                if code[m.start() - 1:m.start()] in (")", '"', "}") or code[m.start() - 1:m.start()].isalnum():
                    rep = {"+": "*", "*": "+", "?": ""}[m.group(0)]
                    out.append((i, "pest-quant", m.start(), m.group(0), rep))
            continue
        if path.endswith("microprogram_ram_content.rs"):
            for m in re.finditer(r"0b([01_]{20,})", code):
                bits = [k for k, c in enumerate(m.group(1)) if c in "01"]
                for k in bits:
                    out.append((i, "control-bit", m.start(1) + k, m.group(1)[k], "1" if m.group(1)[k] == "0" else "0"))
            continue
        for a, b in SWAPS:
            start = 0
            while True:
                k = code.find(a, start)
                if k < 0:
                    break
                start = k + len(a)
                if a.strip() in ("<", ">", "<=", ">=", "&", "|", "+", "-") and GENERIC_HINT.search(code):
                    continue
                if a in ("true", "false") and (code[k - 1:k].isalnum() or code[k - 1:k] == "_" or code[k + len(a):k + len(a) + 1].isalnum() or code[k + len(a):k + len(a) + 1] == "_"):
                    continue
                out.append((i, "swap:" + a.strip(), k, a, b))
        # constants
        for m in re.finditer(r"(?<![\w.])(0x[0-9A-Fa-f_]+|0b[01_]+|\d+)(?![\w.])", code):
            tok = m.group(1)
            try:
                v = int(tok.replace("_", ""), 0)
            except ValueError:
                continue
            if v > 0xFFFF:
                continue
            if tok.startswith("0x"):
                new = "0x%X" % (v + 1)
            elif tok.startswith("0b"):
                width = len(tok.replace("_", "")) - 2
                new = "0b" + bin(v ^ (1 << ((i + m.start()) % max(1, width))))[2:].zfill(width)
            else:
                new = str(v + 1)
            out.append((i, "const", m.start(), tok, new))
        # dropped negation
        for m in re.finditer(r"!(?=[a-z_(])", code):
            if code[m.start() - 1:m.start()] not in ("=", "<", ">") and not re.match(r"\w", code[m.start() - 1:m.start()] or " "):
                out.append((i, "drop-not", m.start(), "!", ""))
        # dropped statement: a call or assignment on its own line
        s = code.strip()
        if s.endswith(";") and not s.startswith(("let ", "return", "break", "continue", "use ", "pub ", "const ", "static ", "type ")) and s.count("(") == s.count(")") and s.count("{") == s.count("}"):
            if re.match(r"^(self\.|\*?[a-z_][\w.\[\]()*]*\s*(=|\|=|&=|\+=|-=)[^=]|[a-z_][\w.]*\()", s):
                out.append((i, "drop-stmt", len(l) - len(l.lstrip()), s, "{}" if False else ""))
    return out


def apply(text, cand):
    i, op, col, a, b = cand
    lines = text.split("\n")
    l = lines[i]
    if op == "drop-stmt":
        lines[i] = l[:col] + "/* dropped */"
    else:
        assert l[col:col + len(a)] == a, (l, col, a)
        lines[i] = l[:col] + b + l[col + len(a):]
    return "\n".join(lines)


def sh(cmd, timeout=None, **kw):
    try:
        p = subprocess.run(cmd, stdout=subprocess.PIPE, stderr=subprocess.STDOUT, text=True, timeout=timeout, **kw)
        return p.returncode, p.stdout
    except subprocess.TimeoutExpired as e:
        return 124, (e.stdout or "") if isinstance(e.stdout, str) else ""


class Worker:
    def __init__(self, k, root):
        self.d = os.path.join(root, "w%d" % k)
        shutil.rmtree(self.d, ignore_errors=True)
        os.makedirs(self.d)
        self.repo = os.path.join(self.d, "repo")
        self.verif = os.path.join(self.d, "verif")
        rc, out = sh(["git", "-C", REPO, "worktree", "add", "-q", "--detach", self.repo, "HEAD"])
        assert rc == 0, out
        sh(["rsync", "-a", "--exclude", ".git", "--exclude", ".target", "--exclude", ".work", "--exclude", "evidence", "--exclude", "replays", "--exclude", "seeded", "--exclude", "coverage", "--exclude", "mutation", VERIF + "/", self.verif + "/"])
        for f, a, b in (("check", 'REPO = "/repo"', 'REPO = "%s"' % self.repo), ("harness/Cargo.toml", 'path = "/repo/emulator-2a-lib"', 'path = "%s/emulator-2a-lib"' % self.repo)):
            p = os.path.join(self.verif, f)
            s = open(p).read()
            assert a in s
            open(p, "w").write(s.replace(a, b))
        self.env = dict(os.environ, CARGO_NET_OFFLINE="true", CARGO_TARGET_DIR=os.path.join(self.d, "target"), RUST_BACKTRACE="0")

    def close(self):
        sh(["git", "-C", REPO, "worktree", "remove", "--force", self.repo])
        shutil.rmtree(self.d, ignore_errors=True)

    def run(self, mid, path, cand, seed):
        sh(["git", "-C", self.repo, "checkout", "-q", "--", "."])
        full = os.path.join(self.repo, path)
        text = open(full).read()
        new = apply(text, cand)
        open(full, "w").write(new)
        i = cand[0]
        rec = {"id": mid, "file": path, "line": i + 1, "op": cand[1], "before": text.split("\n")[i].strip()[:160], "after": new.split("\n")[i].strip()[:160]}
        t0 = time.time()
        rc, out = sh(["cargo", "build", "--offline", "--workspace"], cwd=self.repo, env=self.env, timeout=900)
        if rc != 0:
            rec["outcome"] = "stillborn"
            return rec
        rc, out = sh(["cargo", "test", "--offline", "--workspace", "--no-fail-fast"], cwd=self.repo, env=self.env, timeout=900)
        if rc != 0:
            rec["outcome"] = "tests"
            rec["tests"] = "timeout" if rc == 124 else "failed"
            return rec
        verdicts = {}
        first = FILES.get(path, ALL)
        order = first + [c for c in ALL if c not in first]
        env = dict(os.environ, VERIF_SEED=str(seed))
        killed = []
        for n, cid in enumerate(order):
            if n == len(first) and killed:
                break
            rc, out = sh([os.path.join(self.verif, "check"), cid, "--tier", "quick"], cwd=self.verif, env=env, timeout=2400)
            v = {0: "held", 1: "VIOLATION", 2: "inconclusive", 124: "timeout"}.get(rc, "rc=%d" % rc)
            verdicts[cid] = v
            if rc == 1:
                sig = [l.strip().split(" ")[0].replace("signature=", "") for l in out.splitlines() if l.strip().startswith("signature=")]
                verdicts[cid] = "VIOLATION " + ",".join(sig[:2])
                killed.append(cid)
            elif rc != 0:
                why = [l for l in out.splitlines() if l.startswith("INCONCLUSIVE")]
                verdicts[cid] = v + " " + (why[0][:200] if why else "")
        rec["verdicts"] = verdicts
        rec["killed_by"] = killed
        rec["outcome"] = "killed" if killed else ("inconclusive" if any(not x.startswith("held") for x in verdicts.values()) else "survived")
        rec["seconds"] = round(time.time() - t0)
        return rec


def main():
    a = sys.argv[1:]
    opt = lambda k, d: a[a.index(k) + 1] if k in a else d
    n, seed, jobs = int(opt("--n", "40")), int(opt("--seed", "1")), int(opt("--jobs", "4"))
    fre = re.compile(opt("--files", "."))
    outp = os.path.join(VERIF, opt("--out", "mutation/RESULTS.jsonl"))
    os.makedirs(os.path.dirname(outp), exist_ok=True)
    rng = random.Random(seed)
    per_file = {}
    for path in FILES:
        if not fre.search(path):
            continue
        text = open(os.path.join(REPO, path)).read()
        c = candidates(path, text)
        if c:
            per_file[path] = c
    total = sum(len(c) for c in per_file.values())
    print("candidate sites: %d in %d files" % (total, len(per_file)), flush=True)
    # stratified: proportional to sqrt(#sites) so that small files are not starved
    w = {p: min(len(c) ** 0.5, 20.0) for p, c in per_file.items()}
    ws = sum(w.values())
    picks = []
    for p, c in per_file.items():
        k = max(1, round(n * w[p] / ws))
        for cand in rng.sample(c, min(k, len(c))):
            picks.append((p, cand))
    rng.shuffle(picks)
    picks = picks[:n]
    done = set()
    if os.path.exists(outp):
        for l in open(outp):
            try:
                done.add(json.loads(l)["id"])
            except ValueError:
                pass
    root = opt("--scratch", "/tmp/mw")
    os.makedirs(root, exist_ok=True)
    lock = threading.Lock()
    workers = [Worker(k, root) for k in range(jobs)]
    free = list(workers)

    def job(item):
        path, cand = item
        mid = "%s:%d:%s:%d" % (path, cand[0] + 1, cand[1], cand[2])
        if mid in done:
            return
        with lock:
            wk = free.pop()
        try:
            rec = wk.run(mid, path, cand, seed)
        except Exception as e:  # noqa
            rec = {"id": mid, "outcome": "harness-error", "error": repr(e)[:300]}
        finally:
            with lock:
                free.append(wk)
        with lock:
            open(outp, "a").write(json.dumps(rec) + "\n")
            print(rec.get("outcome"), mid, rec.get("killed_by", ""), rec.get("after", "")[:90], flush=True)

    try:
        with ThreadPoolExecutor(max_workers=jobs) as ex:
            list(ex.map(job, picks))
    finally:
        for wk in workers:
            wk.close()


if __name__ == "__main__":
    main()
