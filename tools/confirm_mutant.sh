#!/bin/bash
# usage: tools/confirm_mutant.sh <worktree> <dir with patch.diff + demo.rs> [demo destination relative to worktree] [cargo test args for the demo...]
# Confirms: patch applies on a clean tree, full test suite passes with it, demo FAILS with it and PASSES without.
wt=$1; d=$2; dest=${3:-emulator-2a-lib/tests/demo_seeded.rs}
if [ $# -gt 3 ]; then shift 3; demoargs="$*"; else demoargs="-p emulator-2a-lib --test demo_seeded"; fi
export CARGO_NET_OFFLINE=true CARGO_TARGET_DIR=$wt/target
cd $wt || exit 2
git checkout -q -- . ; [ -z "$APPEND" ] && rm -f $dest; mkdir -p $(dirname $dest)
git apply $d/patch.diff || { echo "CONFIRM: patch does not apply"; exit 1; }
suite=$(cargo test --workspace --no-fail-fast --offline 2>&1 | grep -E "^test result" | tr '\n' ' ')
nfail=$(echo "$suite" | grep -o "[0-9]* failed" | awk '{s+=$1} END {print s+0}')
npass=$(echo "$suite" | grep -o "[0-9]* passed" | awk '{s+=$1} END {print s+0}')
if [ -n "$APPEND" ]; then cat $d/demo.rs >> $dest; else cp $d/demo.rs $dest; fi
cargo test --offline $demoargs >/tmp/confirm_demo_with.log 2>&1; rc_with=$?
git checkout -q -- .
if [ -n "$APPEND" ]; then cat $d/demo.rs >> $dest; fi
cargo test --offline $demoargs >/tmp/confirm_demo_without.log 2>&1; rc_without=$?
if [ -n "$APPEND" ]; then git checkout -q -- .; else rm -f $dest; fi
echo "CONFIRM: suite passed=$npass failed=$nfail demo_with_change_rc=$rc_with demo_without_change_rc=$rc_without $( [ "$nfail" = "0" ] && [ "$npass" -ge 122 ] && [ $rc_with -ne 0 ] && [ $rc_without -eq 0 ] && echo OK || echo NOT-OK )"
