#!/bin/sh
# usage: tools/trymutant.sh <patch.diff> <ID> [ID...]
# Applies a seeded change to /repo, runs the quick checks named, restores /repo.
patch=$1; shift
cd /verif
if ! git -C /repo diff --quiet; then echo "/repo has uncommitted changes"; exit 3; fi
git -C /repo apply "$patch" || { echo "patch does not apply"; exit 3; }
for id in "$@"; do
  out=$(./check $id --tier ${TIER:-quick} 2>&1); rc=$?
  echo "== $id rc=$rc"
  echo "$out" | grep -E '^(HELD|VIOLATION|INCONCLUSIVE|KNOWN|  signature)' | cut -c1-300 | head -${LINES_SHOWN:-6}
done
git -C /repo checkout -- .
git -C /repo status --short | head -3
